"""`Prog`: a tiny first-order description language of funsor expressions (plain tuples; no funsor objects), with
its static typing `type_of`.  One description yields: the real funsor term (lang.build), the oracle (lang.denote)
and the predicted type.

domains:  ("bint", n)  |  ("real", shape)          output: (dtype, shape) with dtype "real" or int n
"""
from collections import OrderedDict

import numpy as np


class IllTyped(Exception):
    pass


COMPARISONS = ("eq", "ne", "lt", "le", "gt", "ge")
BOOL_OPS = ("and_", "or_", "xor")

# ---- constructors ------------------------------------------------------------------------------------


def leaf(name, inputs=(), shape=(), carrier="real"):
    return ("leaf", name, tuple(inputs), tuple(shape), carrier)


def num(v, dtype="real"):
    return ("num", v, dtype)


def var(name, dom):
    return ("var", name, dom)


def unary(op, e):
    return ("unary", op, e)


def binary(op, a, b):
    return ("binary", op, a, b)


def reduce_(op, e, names):
    return ("reduce", op, e, tuple(names))


def subs(e, pairs):
    return ("subs", e, tuple(pairs))


def slice_(name, start, stop, step, dtype):
    return ("slice", name, start, stop, step, dtype)


def getitem(e, idx):
    return ("getitem", e, idx)


def getitem_at(e, idx, offset):
    """e[:, ..., idx] : index the event dim number `offset` (funsor's GetitemOp(offset))"""
    return ("getitem_at", e, idx, offset)


def constant(const_inputs, e):
    """funsor.constant.Constant: e, declared constant with respect to extra (bounded-integer) inputs"""
    return ("constant", tuple(const_inputs), e)


def getslice(e, index):
    return ("getslice", e, index)


def lambda_(name, size, e):
    return ("lambda", name, size, e)


def stack(name, parts):
    return ("stack", name, tuple(parts))


def cat(name, parts, part_name):
    return ("cat", name, tuple(parts), part_name)


def outreduce(op, e, axis=None, keepdims=False):
    return ("outreduce", op, e, axis, keepdims)


def reshape(e, shape):
    return ("reshape", e, tuple(shape))


def einsum(eq, operands):
    return ("einsum", eq, tuple(operands))


def independent(e, reals_var, bint_var, diag_var):
    return ("independent", e, reals_var, bint_var, diag_var)


def align(e, names):
    return ("align", e, tuple(names))


# ---- typing ------------------------------------------------------------------------------------------

def slice_size(start, stop, step, dtype):
    stop = min(dtype, max(start, stop))
    return len(range(start, stop, step))


def _merge(*inputs):
    out = OrderedDict()
    for inp in inputs:
        for k, d in inp.items():
            if k in out and out[k] != d:
                raise IllTyped("input %s has conflicting domains %s %s" % (k, out[k], d))
            out[k] = d
    return out


def dom_of_output(out):
    dtype, shape = out
    if dtype == "real":
        return ("real", tuple(shape))
    if shape == ():
        return ("bint", dtype)
    return ("intarr", dtype, tuple(shape))


def type_of(e):
    """returns (inputs: OrderedDict name -> dom, output: (dtype, shape)); raises IllTyped"""
    tag = e[0]
    if tag == "leaf":
        _, name, inputs, shape, carrier = e
        dtype = "real"
        if isinstance(carrier, tuple) and carrier[0] == "int":
            dtype = carrier[1]
        elif carrier == "bool":
            dtype = 2
        return OrderedDict((k, ("bint", n)) for k, n in inputs), (dtype, tuple(shape))
    if tag == "num":
        return OrderedDict(), (e[2], ())
    if tag == "var":
        _, name, dom = e
        out = ("real", tuple(dom[1])) if dom[0] == "real" else (dom[1], ())
        return OrderedDict([(name, dom)]), out
    if tag == "unary":
        _, op, a = e
        ins, (dtype, shape) = type_of(a)
        if op in ("exp", "log"):
            dtype = "real"
        elif op in ("sqrt", "log1p", "tanh", "atanh", "sigmoid", "reciprocal") and dtype != "real":
            raise IllTyped("transcendental unary op on bounded-integer data")
        elif op == "neg" and dtype != "real":
            raise IllTyped("negation of bounded-integer data")
        return ins, (dtype, shape)
    if tag == "binary":
        _, op, a, b = e
        ia, (da, sa) = type_of(a)
        ib, (db, sb) = type_of(b)
        if op == "matmul":
            if not sa or not sb:
                raise IllTyped("matmul shapes")
            try:
                shape = np.matmul(np.empty(sa, dtype=np.int8), np.empty(sb, dtype=np.int8)).shape
            except ValueError:
                raise IllTyped("matmul shapes")
            return _merge(ia, ib), ("real", tuple(shape))
        try:
            shape = tuple(np.broadcast_shapes(sa, sb))
        except ValueError:
            raise IllTyped("shapes do not broadcast")
        if op in COMPARISONS:
            dtype = 2
        elif op in ("truediv", "logaddexp", "safediv"):
            dtype = "real"
        elif da == "real" or db == "real":
            dtype = "real"
        else:
            dtype = ("int", op, da, db)   # size decided by funsor's find_domain; only the kind is predicted
        return _merge(ia, ib), (dtype, shape)
    if tag == "reduce":
        _, op, a, names = e
        ins, out = type_of(a)
        for k, n in names:
            if k in ins and (ins[k][0] != "bint" or ins[k][1] != n):
                raise IllTyped("reduce: %s declared with size %s but the argument has %s" % (k, n, ins[k]))
        ins = OrderedDict((k, d) for k, d in ins.items() if k not in dict(names))
        return ins, out
    if tag == "subs":
        _, a, pairs = e
        ins, out = type_of(a)
        keys = [k for k, _ in pairs]
        new = OrderedDict((k, d) for k, d in ins.items() if k not in keys)
        extra = []
        for k, v in pairs:
            if k not in ins:
                continue
            iv, ov = type_of(v)
            d = ins[k]
            if d[0] == "bint":
                if ov[1] != () or ov[0] == "real":
                    raise IllTyped("substituting non-scalar/real for bint")
            else:
                if ov[0] != "real" or tuple(ov[1]) != tuple(d[1]):
                    raise IllTyped("substituting wrong shape for real input")
            extra.append(iv)
        return _merge(new, *extra), out
    if tag == "slice":
        _, name, start, stop, step, dtype = e
        return OrderedDict([(name, ("bint", slice_size(start, stop, step, dtype)))]), (dtype, ())
    if tag == "getitem":
        _, a, idx = e
        ia, (da, sa) = type_of(a)
        ii, (di, si) = type_of(idx)
        if not sa or si != () or di == "real":
            raise IllTyped("getitem")
        if isinstance(di, int) and di != sa[0]:
            raise IllTyped("getitem: index ranges over %s values but the indexed dim has size %s" % (di, sa[0]))
        return _merge(ia, ii), (da, sa[1:])
    if tag == "constant":
        _, cin, a = e
        ia, out = type_of(a)
        if any(k in ia for k, _ in cin):
            raise IllTyped("constant inputs must be disjoint from the argument's")
        ins = OrderedDict((k, ("bint", n)) for k, n in cin)
        ins.update(ia)
        return ins, out
    if tag == "getitem_at":
        _, a, idx, off = e
        ia, (da, sa) = type_of(a)
        ii, (di, si) = type_of(idx)
        if len(sa) <= off or si != () or di == "real":
            raise IllTyped("getitem_at")
        if isinstance(di, int) and di != sa[off]:
            raise IllTyped("getitem_at: index ranges over %s values but the indexed dim has size %s" % (di, sa[off]))
        return _merge(ia, ii), (da, tuple(sa[:off]) + tuple(sa[off + 1:]))
    if tag == "getslice":
        _, a, index = e
        ia, (da, sa) = type_of(a)
        try:
            shape = np.empty(sa, dtype=np.int8)[index].shape
        except IndexError:
            raise IllTyped("getslice index")
        return ia, (da, tuple(shape))
    if tag == "lambda":
        _, name, size, a = e
        ia, (da, sa) = type_of(a)
        if name in ia and (ia[name][0] != "bint" or ia[name][1] != size):
            raise IllTyped("lambda: %s declared with size %s but the body has %s" % (name, size, ia[name]))
        ins = OrderedDict((k, d) for k, d in ia.items() if k != name)
        return ins, (da, (size,) + tuple(sa))
    if tag == "stack":
        _, name, parts = e
        ts = [type_of(p) for p in parts]
        if any(name in t[0] for t in ts) or len({t[1] for t in ts}) != 1:
            raise IllTyped("stack")
        return _merge(OrderedDict([(name, ("bint", len(parts)))]), *[t[0] for t in ts]), ts[0][1]
    if tag == "cat":
        _, name, parts, part_name = e
        ts = [type_of(p) for p in parts]
        if any(part_name not in t[0] for t in ts) or len({t[1] for t in ts}) != 1:
            raise IllTyped("cat")
        if part_name != name and any(name in t[0] for t in ts):
            raise IllTyped("cat name clash")
        total = sum(t[0][part_name][1] for t in ts)
        rest = []
        for t in ts:
            rest.append(OrderedDict((k, d) for k, d in t[0].items() if k != part_name))
        ins = _merge(*rest)
        ins[name] = ("bint", total)
        return ins, ts[0][1]
    if tag == "outreduce":
        _, op, a, axis, keepdims = e
        ia, (da, sa) = type_of(a)
        arr = np.empty(sa, dtype=np.int8)
        try:
            shape = np.sum(arr, axis=axis, keepdims=keepdims).shape
        except Exception:
            raise IllTyped("outreduce axis")
        if op in ("argmax", "argmin"):
            if axis is None or not isinstance(axis, int):
                raise IllTyped("argmax axis")
            dtype = sa[axis]
        elif op in ("all", "any"):
            dtype = 2
        elif op in ("logsumexp", "mean", "var", "std"):
            dtype = "real"
        else:
            dtype = da if da == "real" else ("int", op, da, None)
        return ia, (dtype, tuple(shape))
    if tag == "reshape":
        _, a, shape = e
        ia, (da, sa) = type_of(a)
        if int(np.prod(sa, dtype=int)) != int(np.prod(shape, dtype=int)):
            raise IllTyped("reshape")
        return ia, (da, tuple(shape))
    if tag == "einsum":
        _, eq, operands = e
        ts = [type_of(p) for p in operands]
        ins_s, out_s = eq.split("->")
        ins_s = ins_s.split(",")
        sizes = {}
        for s, t in zip(ins_s, ts):
            if len(s) != len(t[1][1]):
                raise IllTyped("einsum rank")
            for c, n in zip(s, t[1][1]):
                if sizes.setdefault(c, n) != n:
                    raise IllTyped("einsum size")
        return _merge(*[t[0] for t in ts]), ("real", tuple(sizes[c] for c in out_s))
    if tag == "independent":
        _, a, reals_var, bint_var, diag_var = e
        ia, out = type_of(a)
        if bint_var not in ia or diag_var not in ia or ia[diag_var][0] != "real" or ia[bint_var][0] != "bint":
            raise IllTyped("independent")
        ins = OrderedDict((k, d) for k, d in ia.items() if k not in (bint_var, diag_var))
        if reals_var in ins:
            raise IllTyped("independent clash")
        ins[reals_var] = ("real", (ia[bint_var][1],) + tuple(ia[diag_var][1]))
        return ins, out
    if tag == "align":
        _, a, names = e
        ia, out = type_of(a)
        if not set(names) <= set(ia):
            raise IllTyped("align")
        ins = OrderedDict((k, ia[k]) for k in names)
        ins.update(ia)
        return ins, out
    raise IllTyped("unknown node %s" % tag)


def leaves_of(e, acc=None):
    """all leaf nodes (by name; the same name must be the same leaf)"""
    if acc is None:
        acc = OrderedDict()
    if isinstance(e, tuple):
        if e and e[0] == "leaf":
            acc[e[1]] = e
        else:
            for x in e:
                leaves_of(x, acc)
    return acc


def depth(e):
    if not isinstance(e, tuple) or not e or not isinstance(e[0], str):
        return 0
    if e[0] in ("leaf", "num", "var", "slice"):
        return 0
    return 1 + max([depth(x) for x in e[1:] if isinstance(x, tuple)] + [depth(y) for x in e[1:] if isinstance(x, tuple)
                                                                           for y in x if isinstance(y, tuple)] + [0])


def show(e):
    """compact printable form"""
    tag = e[0]
    if tag == "leaf":
        return "%s[%s%s]" % (e[1], ",".join("%s:%d" % kn for kn in e[2]), (";" + "x".join(map(str, e[3]))) if e[3] else "")
    if tag == "num":
        return repr(e[1])
    if tag == "var":
        return "?%s" % e[1]
    if tag == "unary":
        return "%s(%s)" % (e[1], show(e[2]))
    if tag == "binary":
        return "%s(%s, %s)" % (e[1], show(e[2]), show(e[3]))
    if tag == "reduce":
        return "%s.reduce(%s, {%s})" % (show(e[2]), e[1], ",".join(n for n, _ in e[3]))
    if tag == "subs":
        return "%s(%s)" % (show(e[1]), ", ".join("%s=%s" % (k, show(v)) for k, v in e[2]))
    if tag == "slice":
        return "Slice(%s,%d,%d,%d,%d)" % e[1:]
    if tag == "getitem":
        return "%s[%s]" % (show(e[1]), show(e[2]))
    if tag == "constant":
        return "Constant({%s}, %s)" % (",".join("%s:%d" % kn for kn in e[1]), show(e[2]))
    if tag == "getitem_at":
        return "%s[%s%s]" % (show(e[1]), ":," * e[3], show(e[2]))
    if tag == "getslice":
        return "%s[%r]" % (show(e[1]), e[2])
    if tag == "lambda":
        return "Lambda(%s:%d. %s)" % (e[1], e[2], show(e[3]))
    if tag == "stack":
        return "Stack(%s; %s)" % (e[1], ", ".join(show(p) for p in e[2]))
    if tag == "cat":
        return "Cat(%s<-%s; %s)" % (e[1], e[3], ", ".join(show(p) for p in e[2]))
    if tag == "outreduce":
        return "%s.%s(axis=%r,keepdims=%r)" % (show(e[2]), e[1], e[3], e[4])
    if tag == "reshape":
        return "%s.reshape(%r)" % (show(e[1]), e[2])
    if tag == "einsum":
        return "Einsum(%s; %s)" % (e[1], ", ".join(show(p) for p in e[2]))
    if tag == "independent":
        return "Independent(%s, %s, %s, %s)" % (show(e[1]), e[2], e[3], e[4])
    if tag == "align":
        return "Align(%s, %r)" % (show(e[1]), e[2])
    return repr(e)
