"""build(prog, leaves): construct the expression through funsor's PUBLIC API (the real code under test)."""
from collections import OrderedDict

import numpy as np

import funsor
from funsor import ops
from funsor.domains import Array, Bint, Reals
from funsor.tensor import Einsum, Tensor
from funsor.terms import Align, Cat, Independent, Lambda, Number, Slice, Stack, Variable

OUTREDUCE_METHOD = {"sum": "sum", "prod": "prod", "amax": "max", "amin": "min", "all": "all", "any": "any",
                    "logsumexp": "logsumexp", "mean": "mean", "var": "var", "std": "std",
                    "argmax": "argmax", "argmin": "argmin"}


def dom(d):
    if d[0] == "bint":
        return Bint[d[1]]
    if d[0] == "real":
        return Reals[tuple(d[1])]
    raise ValueError(d)


def build(e, leaves):
    tag = e[0]
    if tag == "leaf":
        _, name, inputs, shape, carrier = e
        dtype = "real"
        if isinstance(carrier, tuple) and carrier[0] == "int":
            dtype = carrier[1]
        elif carrier == "bool":
            dtype = 2
        return Tensor(leaves[name], OrderedDict((k, Bint[n]) for k, n in inputs), dtype)
    if tag == "num":
        return Number(e[1], e[2])
    if tag == "var":
        return Variable(e[1], dom(e[2]))
    if tag == "unary":
        _, op, a = e
        return getattr(ops, op)(build(a, leaves))
    if tag == "binary":
        _, op, a, b = e
        fa = build(a, leaves)
        fb = build(b, leaves)
        return getattr(ops, op)(fa, fb)
    if tag == "reduce":
        _, op, a, names = e
        fa = build(a, leaves)
        rv = frozenset(Variable(k, Bint[n]) if k not in fa.inputs else k for k, n in names)
        return fa.reduce(getattr(ops, op), rv)
    if tag == "subs":
        _, a, pairs = e
        fa = build(a, leaves)
        return fa(**{k: build(v, leaves) for k, v in pairs})
    if tag == "slice":
        _, name, start, stop, step, dtype = e
        return Slice(name, start, stop, step, dtype)
    if tag == "getitem":
        _, a, idx = e
        return build(a, leaves)[build(idx, leaves)]
    if tag == "constant":
        from funsor.constant import Constant
        return Constant(OrderedDict((k, Bint[n]) for k, n in e[1]), build(e[2], leaves))
    if tag == "getitem_at":
        _, a, idx, off = e
        return build(a, leaves)[(slice(None),) * off + (build(idx, leaves),)]
    if tag == "getslice":
        _, a, index = e
        return build(a, leaves)[index]
    if tag == "lambda":
        _, name, size, a = e
        return Lambda(Variable(name, Bint[size]), build(a, leaves))
    if tag == "stack":
        _, name, parts = e
        return Stack(name, tuple(build(p, leaves) for p in parts))
    if tag == "cat":
        _, name, parts, part_name = e
        return Cat(name, tuple(build(p, leaves) for p in parts), part_name)
    if tag == "outreduce":
        _, op, a, axis, keepdims = e
        fa = build(a, leaves)
        # through the op, not the method: Lambda has a data attribute `var` that shadows Funsor.var on lazy terms
        return getattr(ops, op)(fa, axis=axis, keepdims=keepdims)
    if tag == "reshape":
        return build(e[1], leaves).reshape(e[2])
    if tag == "einsum":
        _, eq, operands = e
        return Einsum(eq, *[build(p, leaves) for p in operands])
    if tag == "independent":
        _, a, reals_var, bint_var, diag_var = e
        return Independent(build(a, leaves), reals_var, bint_var, diag_var)
    if tag == "align":
        return Align(build(e[1], leaves), e[2])
    raise NotImplementedError(tag)
