"""Meaning of funsor terms and of REDEXES (cls, args) for the rule monitor (C02): convert to a Prog node, then
use the oracle `denote`.  Reads only constructor arguments; no funsor evaluation is involved."""
from collections import OrderedDict

import numpy as np


class NoSemantics(Exception):
    """term class / op outside the fragment `sem` understands (firing counted as not evaluated)"""


OPNAMES = {"add", "sub", "mul", "truediv", "floordiv", "mod", "pow", "max", "min", "eq", "ne", "lt", "le", "gt", "ge", "and_", "or_", "xor",
           "logaddexp", "matmul", "neg", "abs", "exp", "log", "sqrt", "log1p", "tanh", "atanh", "sigmoid", "invert", "reciprocal", "pos", "safesub", "safediv",
           "sample"}
REDUCTIONS = {"sum": "sum", "prod": "prod", "amax": "amax", "amin": "amin", "all": "all", "any": "any", "logsumexp": "logsumexp",
              "mean": "mean", "var": "var", "std": "std", "argmax": "argmax", "argmin": "argmin"}


class Conv:
    def __init__(self):
        self.leaves = OrderedDict()
        self.ids = {}

    def dom(self, d):
        if isinstance(d.dtype, int) and d.shape == ():
            return ("bint", d.dtype)
        if d.dtype == "real":
            return ("real", tuple(d.shape))
        raise NoSemantics("domain %s" % d)

    def opname(self, op):
        n = getattr(op, "__name__", None) or getattr(op, "name", None)
        if n == "sample":
            return "logaddexp"
        if n in OPNAMES:
            return n
        raise NoSemantics("op %s" % op)

    def term(self, t):
        from funsor.cnf import Contraction
        from funsor.tensor import Tensor
        from funsor.terms import (Align, Binary, Cat, Funsor, Independent, Lambda, Number, Reduce, Slice, Stack, Subs, Unary,
                                  Variable)
        from funsor.typing import get_origin
        if not isinstance(t, Funsor):
            raise NoSemantics("not a funsor: %s" % type(t).__name__)
        if isinstance(t, Tensor):
            key = id(t.data)
            if key not in self.ids:
                name = "T%d" % len(self.ids)
                self.ids[key] = name
                self.leaves[name] = t.data
            name = self.ids[key]
            carrier = "real" if t.dtype == "real" else ("int", t.dtype)
            return ("leaf", name, tuple((k, d.dtype) for k, d in t.inputs.items()), tuple(t.output.shape), carrier)
        if isinstance(t, Number):
            return ("num", t.data, t.dtype)
        if isinstance(t, Variable):
            return ("var", t.name, self.dom(t.output))
        if isinstance(t, Slice):
            return ("slice", t.name, t.slice.start, t.slice.stop, t.slice.step, t.dtype)
        cls = get_origin(type(t)) or type(t)
        from funsor.terms import Finitary
        from funsor.constant import Constant
        if cls in (Unary, Binary, Reduce, Subs, Contraction, Stack, Cat, Lambda, Align, Independent, Finitary, Constant):
            return self.app(cls, t._ast_values)
        raise NoSemantics("term class %s" % cls.__name__)

    def app(self, cls, args):
        """Prog node of the redex cls(*args)"""
        import funsor.ops as ops
        from funsor.cnf import Contraction
        from funsor.terms import (Align, Binary, Cat, Independent, Lambda, Reduce, Stack, Subs, Unary)
        from funsor.typing import get_origin
        cls = get_origin(cls) or cls
        if cls is Unary:
            op, arg = args
            a = self.term(arg)
            n = getattr(op, "name", None) or op.__name__
            if n in REDUCTIONS:
                d = op.defaults
                if "ddof" in d and d["ddof"] != 0:
                    raise NoSemantics("ddof")
                return ("outreduce", REDUCTIONS[n], a, d.get("axis"), bool(d.get("keepdims", False)))
            if n == "reshape":
                return ("reshape", a, tuple(op.defaults["shape"]))
            if n == "getslice":
                return ("getslice", a, op.defaults["index"])
            return ("unary", self.opname(op), a)
        if cls is Binary:
            op, lhs, rhs = args
            n = getattr(op, "name", None) or op.__name__
            if n == "getitem":
                off = op.defaults.get("offset", 0)
                if off != 0:
                    return ("getitem_at", self.term(lhs), self.term(rhs), off)
                return ("getitem", self.term(lhs), self.term(rhs))
            return ("binary", self.opname(op), self.term(lhs), self.term(rhs))
        if cls is Reduce:
            op, arg, reduced_vars = args
            names = tuple(sorted((v.name, self._size(v)) for v in reduced_vars))
            if not names:
                return self.term(arg)
            return ("reduce", self.opname(op), self.term(arg), names)
        if cls is Subs:
            arg, subs = args
            return ("subs", self.term(arg), tuple((k, self.term(v)) for k, v in subs))
        if cls is Contraction:
            red_op, bin_op, reduced_vars = args[:3]
            terms = args[3] if len(args) == 4 and isinstance(args[3], tuple) else args[3:]
            ps = [self.term(x) for x in terms]
            e = ps[0]
            if len(ps) > 1:
                bn = self.opname(bin_op)
                for p in ps[1:]:
                    e = ("binary", bn, e, p)
            names = tuple(sorted((v.name, self._size(v)) for v in reduced_vars))
            if names:
                e = ("reduce", self.opname(red_op), e, names)
            return e
        if cls is Stack:
            name, parts = args
            return ("stack", name, tuple(self.term(p) for p in parts))
        if cls is Cat:
            name, parts, part_name = args
            return ("cat", name, tuple(self.term(p) for p in parts), part_name)
        if cls is Lambda:
            var, expr = args
            return ("lambda", var.name, var.output.size, self.term(expr))
        if cls is Align:
            arg, names = args
            return ("align", self.term(arg), tuple(names))
        from funsor.terms import Finitary
        if cls is Finitary:
            op, fargs = args
            n = getattr(op, "name", None) or op.__name__
            if n == "einsum":
                return ("einsum", op.defaults["equation"], tuple(self.term(x) for x in fargs))
            raise NoSemantics("finitary op %s" % n)
        from funsor.constant import Constant
        if cls is Constant:
            cin, arg = args
            return ("constant", tuple((k, self._bsize(d)) for k, d in cin), self.term(arg))
        if cls is Independent:
            fn, reals_var, bint_var, diag_var = args
            return ("independent", self.term(fn), reals_var, bint_var, diag_var)
        raise NoSemantics("redex class %s" % getattr(cls, "__name__", cls))

    def _bsize(self, d):
        if not isinstance(d.dtype, int) or d.shape != ():
            raise NoSemantics("constant with a real input")
        return d.dtype

    def _size(self, v):
        if not isinstance(v.output.dtype, int) or v.output.shape != ():
            raise NoSemantics("reduction over a real variable")
        return v.output.size
