"""Scalar cell algebra used by the ORACLE (`denote`, `sem`): works on SV cells (symbolic) and on plain python
numbers (concrete replay).  No funsor imports.  This is the textbook meaning of each op."""
import math
import operator

import numpy as np
import z3

from symx.sv import SV, sv_max, sv_min, sv_where, sv_logaddexp, sv_eq_formula


def is_sym(x):
    return isinstance(x, SV)


def _any_sym(*xs):
    return any(isinstance(x, SV) for x in xs)


def c_max(a, b):
    if _any_sym(a, b):
        return sv_max(a, b)
    return a if a >= b else b


def c_min(a, b):
    if _any_sym(a, b):
        return sv_min(a, b)
    return a if a <= b else b


def c_logaddexp(a, b):
    if _any_sym(a, b):
        return sv_logaddexp(a, b)
    if a == -math.inf:
        return b
    if b == -math.inf:
        return a
    m = max(a, b)
    return m + math.log(math.exp(a - m) + math.exp(b - m))


def c_where(c, a, b):
    if _any_sym(c, a, b):
        return sv_where(c, a, b)
    return a if c else b


def c_exp(a):
    if is_sym(a):
        return a.exp()
    try:
        return math.exp(a)
    except OverflowError:
        return math.inf


def c_log(a):
    if is_sym(a):
        return a.log()
    if isinstance(a, (bool, np.bool_)):
        return 0.0 if a else -math.inf
    return math.log(a) if a > 0 else (-math.inf if a == 0 else math.nan)


def c_log1p(a):
    return a.log1p() if is_sym(a) else math.log1p(a)


def c_sqrt(a):
    return a.sqrt() if is_sym(a) else math.sqrt(a)


def c_tanh(a):
    return a.tanh() if is_sym(a) else math.tanh(a)


def c_atanh(a):
    return a.arctanh() if is_sym(a) else math.atanh(a)


def c_sigmoid(a):
    return 1 / (1 + c_exp(-a))


def c_abs(a):
    return abs(a)


def c_neg(a):
    return -a


def c_reciprocal(a):
    return 1 / a.toreal() if is_sym(a) else 1.0 / a


def c_and(a, b):
    if _any_sym(a, b):
        return SV.lift(a) & SV.lift(b)
    return operator.and_(a, b)


def c_or(a, b):
    if _any_sym(a, b):
        return SV.lift(a) | SV.lift(b)
    return operator.or_(a, b)


def c_xor(a, b):
    if _any_sym(a, b):
        return SV.lift(a) ^ SV.lift(b)
    return operator.xor(a, b)


def c_invert(a):
    if is_sym(a):
        return ~a
    if isinstance(a, (bool, np.bool_)):
        return not a
    return ~a


def c_truediv(a, b):
    if _any_sym(a, b):
        return SV.lift(a) / SV.lift(b)
    return operator.truediv(float(a), float(b)) if b != 0 else math.nan


def c_floordiv(a, b):
    if _any_sym(a, b):
        return SV.lift(a) // SV.lift(b)
    return a // b


def c_mod(a, b):
    if _any_sym(a, b):
        return SV.lift(a) % SV.lift(b)
    return a % b


def c_pow(a, b):
    if _any_sym(a, b):
        return SV.lift(a) ** SV.lift(b)
    return a ** b


BINARY = {
    "add": operator.add, "sub": operator.sub, "mul": operator.mul, "truediv": c_truediv,
    "floordiv": c_floordiv, "mod": c_mod, "pow": c_pow, "max": c_max, "min": c_min,
    "eq": operator.eq, "ne": operator.ne, "lt": operator.lt, "le": operator.le, "gt": operator.gt,
    "ge": operator.ge, "and_": c_and, "or_": c_or, "xor": c_xor, "logaddexp": c_logaddexp,
    "safesub": operator.sub, "safediv": c_truediv,
}
UNARY = {
    "neg": c_neg, "abs": c_abs, "exp": c_exp, "log": c_log, "sqrt": c_sqrt, "log1p": c_log1p,
    "tanh": c_tanh, "atanh": c_atanh, "sigmoid": c_sigmoid, "invert": c_invert, "reciprocal": c_reciprocal,
    "pos": lambda a: a,
}
# units of the associative ops (textbook)
UNIT = {"add": 0, "mul": 1, "max": -math.inf, "min": math.inf, "and_": True, "or_": False, "xor": False,
        "logaddexp": -math.inf}


def fold(opname, xs):
    xs = list(xs)
    f = BINARY[opname]
    if not xs:
        return UNIT[opname]
    acc = xs[0]
    for x in xs[1:]:
        acc = f(acc, x)
    return acc


def cell_equal_formula(a, b):
    return sv_eq_formula(a, b)


def concrete_close(a, b, rtol=1e-6, atol=1e-9):
    """comparison used in concrete replays"""
    if isinstance(a, (bool, np.bool_)) or isinstance(b, (bool, np.bool_)):
        return bool(a) == bool(b)
    a, b = float(a), float(b)
    if a == b:
        return True
    if math.isnan(a) or math.isnan(b):
        return False
    if math.isinf(a) or math.isinf(b):
        return False
    return abs(a - b) <= atol + rtol * max(abs(a), abs(b))
