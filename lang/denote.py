"""The ORACLE: textbook meaning of a Prog expression, evaluated point by point on SV cells (symbolic) or python
numbers (concrete replay).  No funsor imports.

denote(e, env, leaves) -> numpy object array of the output shape.
  env    : name -> int (bounded-integer input) | object ndarray (real-valued input)
  leaves : leaf name -> numpy array (object dtype with SV cells, or a float/int/bool array)
"""
import itertools
import math

import numpy as np

from . import cellops as C
from .prog import slice_size, type_of


class OracleUndefined(Exception):
    """the textbook meaning is undefined here (e.g. index out of range)"""


def _arr(x, shape=()):
    a = np.empty(shape, dtype=object)
    if shape == ():
        a[()] = x
    else:
        a[...] = x
    return a


def _raw(x):
    """plain object ndarray of python/SV cells"""
    if isinstance(x, np.ndarray):
        x = x.view(np.ndarray)
        if x.dtype != object:
            o = np.empty(x.shape, dtype=object)
            for idx in np.ndindex(*x.shape):
                o[idx] = x[idx].item()
            return o
        return x
    return _arr(x)


def _map(f, *arrs):
    arrs = [_raw(a) for a in arrs]
    bs = np.broadcast_arrays(*arrs) if len(arrs) > 1 else arrs
    out = np.empty(bs[0].shape, dtype=object)
    for idx in np.ndindex(*bs[0].shape):
        out[idx] = f(*[b[idx] for b in bs])
    return out


def _intval(cell):
    """python int of a concrete integer cell (index)"""
    if isinstance(cell, C.SV):
        c = cell.const_value() if cell.is_const() else None
        if c is None:
            return None
        return int(c)
    return int(cell)


def _select(options, idx_cell):
    """options: list of equally-shaped object arrays; idx_cell: int cell (maybe symbolic) -> selected array"""
    iv = _intval(idx_cell)
    if iv is not None:
        if not (0 <= iv < len(options)):
            raise OracleUndefined("index out of range")
        return options[iv]
    res = options[-1]
    for v in range(len(options) - 2, -1, -1):
        res = _map(lambda a, b, v=v: C.c_where(idx_cell == v, a, b), options[v], res)
    return res


def _fold_axis(opname, a, axis, keepdims):
    """fold a binary cell op along axes of an object array"""
    a = _raw(a)
    nd = a.ndim
    if axis is None:
        axes = tuple(range(nd))
    elif isinstance(axis, int):
        axes = (axis % nd,)
    else:
        axes = tuple(x % nd for x in axis)
    keep = [i for i in range(nd) if i not in axes]
    out_shape = tuple(a.shape[i] for i in keep)
    out = np.empty(out_shape, dtype=object)
    red_ranges = [range(a.shape[i]) for i in axes]
    for oidx in np.ndindex(*out_shape):
        xs = []
        for ridx in itertools.product(*red_ranges):
            full = [None] * nd
            for i, v in zip(keep, oidx):
                full[i] = v
            for i, v in zip(axes, ridx):
                full[i] = v
            xs.append(a[tuple(full)])
        out[oidx] = opname(xs) if callable(opname) else C.fold(opname, xs)
    if keepdims:
        shape = tuple(1 if i in axes else a.shape[i] for i in range(nd))
        out = out.reshape(shape)
    return out


def _matmul(a, b):
    """numpy.matmul semantics on object arrays (1-d promotion, broadcast batch dims)"""
    a2 = a.reshape((1,) + a.shape) if a.ndim == 1 else a
    b2 = b.reshape(b.shape + (1,)) if b.ndim == 1 else b
    if a2.ndim < 2 or b2.ndim < 2 or a2.shape[-1] != b2.shape[-2]:
        raise OracleUndefined("matmul shapes")
    try:
        batch = np.broadcast_shapes(a2.shape[:-2], b2.shape[:-2])
    except ValueError:
        raise OracleUndefined("matmul batch shapes")
    ab = np.broadcast_to(a2, batch + a2.shape[-2:])
    bb = np.broadcast_to(b2, batch + b2.shape[-2:])
    out = np.empty(batch + (a2.shape[-2], b2.shape[-1]), dtype=object)
    for idx in np.ndindex(*batch):
        for i in range(a2.shape[-2]):
            for j in range(b2.shape[-1]):
                out[idx + (i, j)] = C.fold("add", [ab[idx + (i, k)] * bb[idx + (k, j)] for k in range(a2.shape[-1])])
    if a.ndim == 1:
        out = out[..., 0, :]
    if b.ndim == 1:
        out = out[..., 0]
    return out


def _mean(xs):
    return C.c_truediv(C.fold("add", xs), len(xs))


def _var(xs):
    m = _mean(xs)
    return C.c_truediv(C.fold("add", [(x - m) * (x - m) for x in xs]), len(xs))


def _argbest(xs, is_max):
    best, bi = xs[0], 0
    for j in range(1, len(xs)):
        c = (xs[j] > best) if is_max else (xs[j] < best)
        best = C.c_where(c, xs[j], best)
        bi = C.c_where(c, j, bi)
    return bi


OUTREDUCE = {
    "sum": "add", "prod": "mul", "amax": "max", "amin": "min", "max": "max", "min": "min", "all": "and_", "any": "or_",
    "logsumexp": "logaddexp", "mean": _mean, "var": _var, "std": lambda xs: C.c_sqrt(_var(xs)),
    "argmax": lambda xs: _argbest(xs, True), "argmin": lambda xs: _argbest(xs, False),
}


def denote(e, env, leaves):
    return _raw(_denote(e, env, leaves))


def _denote(e, env, leaves):
    tag = e[0]
    if tag == "leaf":
        _, name, inputs, shape, carrier = e
        data = leaves[name]
        data = data.view(np.ndarray) if isinstance(data, np.ndarray) else np.asarray(data)
        idx = tuple(env[k] for k, _ in inputs)
        return _raw(data[idx]) if idx else _raw(data)
    if tag == "num":
        return _arr(e[1])
    if tag == "var":
        v = env[e[1]]
        return _raw(v) if isinstance(v, np.ndarray) else _arr(v)
    if tag == "unary":
        _, op, a = e
        return _map(C.UNARY[op], denote(a, env, leaves))
    if tag == "binary":
        _, op, a, b = e
        va, vb = denote(a, env, leaves), denote(b, env, leaves)
        if op == "matmul":
            return _matmul(_raw(va), _raw(vb))
        return _map(C.BINARY[op], va, vb)
    if tag == "reduce":
        _, op, a, names = e
        ins, _ = type_of(a)
        vals = []
        for pt in itertools.product(*(range(n) for _, n in names)):
            env2 = dict(env)
            env2.update({k: v for (k, _), v in zip(names, pt)})
            vals.append(denote(a, env2, leaves))
        out = vals[0]
        for v in vals[1:]:
            out = _map(C.BINARY[op], out, v)
        return out
    if tag == "subs":
        _, a, pairs = e
        ins, _ = type_of(a)
        env2 = dict(env)
        for k, v in pairs:
            if k not in ins:
                continue
            val = denote(v, env, leaves)          # all values taken in the CALLER's environment (simultaneous)
            if ins[k][0] == "bint":
                env2[k] = ("cell", val[()])
            else:
                env2[k] = val
        return _denote_with_symbolic_ints(a, env2, leaves, ins)
    if tag == "slice":
        _, name, start, stop, step, dtype = e
        i = env[name]
        return _arr(start + step * i)
    if tag == "getitem":
        _, a, idx = e
        va = denote(a, env, leaves)
        vi = denote(idx, env, leaves)[()]
        return _select([_raw(va[j]) for j in range(va.shape[0])], vi)
    if tag == "constant":
        return denote(e[2], env, leaves)
    if tag == "getitem_at":
        _, a, idx, off = e
        va = denote(a, env, leaves)
        vi = denote(idx, env, leaves)[()]
        return _select([_raw(np.take(va, j, axis=off)) for j in range(va.shape[off])], vi)
    if tag == "getslice":
        _, a, index = e
        return denote(a, env, leaves)[index]
    if tag == "lambda":
        _, name, size, a = e
        parts = []
        for j in range(size):
            env2 = dict(env)
            env2[name] = j
            parts.append(denote(a, env2, leaves))
        out = np.empty((size,) + parts[0].shape, dtype=object)
        for j, p in enumerate(parts):
            out[j] = p
        return out
    if tag == "stack":
        _, name, parts = e
        i = env[name]
        return denote(parts[i], env, leaves)
    if tag == "cat":
        _, name, parts, part_name = e
        i = env[name]
        off = 0
        for p in parts:
            n = type_of(p)[0][part_name][1]
            if i < off + n:
                env2 = dict(env)
                env2.pop(name, None)
                env2[part_name] = i - off
                return denote(p, env2, leaves)
            off += n
        raise OracleUndefined("cat index")
    if tag == "outreduce":
        _, op, a, axis, keepdims = e
        va = denote(a, env, leaves)
        return _fold_axis(OUTREDUCE[op], va, axis, keepdims)
    if tag == "reshape":
        return denote(e[1], env, leaves).reshape(e[2])
    if tag == "einsum":
        _, eq, operands = e
        vals = [denote(p, env, leaves) for p in operands]
        ins_s, out_s = eq.split("->")
        ins_s = ins_s.split(",")
        sizes = {}
        for s, v in zip(ins_s, vals):
            for c, n in zip(s, v.shape):
                sizes[c] = n
        summed = [c for c in sizes if c not in out_s]
        out = np.empty(tuple(sizes[c] for c in out_s), dtype=object)
        for oidx in np.ndindex(*out.shape):
            asg = dict(zip(out_s, oidx))
            terms = []
            for sidx in itertools.product(*(range(sizes[c]) for c in summed)):
                asg.update(zip(summed, sidx))
                terms.append(C.fold("mul", [v[tuple(asg[c] for c in s)] for s, v in zip(ins_s, vals)]))
            out[oidx] = C.fold("add", terms)
        return out
    if tag == "independent":
        _, a, reals_var, bint_var, diag_var = e
        ins, _ = type_of(a)
        n = ins[bint_var][1]
        x = env[reals_var]
        vals = []
        for j in range(n):
            env2 = dict(env)
            env2.pop(reals_var, None)
            env2[bint_var] = j
            env2[diag_var] = _raw(x)[j]
            vals.append(denote(a, env2, leaves))
        out = vals[0]
        for v in vals[1:]:
            out = _map(C.BINARY["add"], out, v)
        return out
    if tag == "align":
        return denote(e[1], env, leaves)
    raise NotImplementedError(tag)


def _denote_with_symbolic_ints(a, env, leaves, ins):
    """evaluate `a` where some bint inputs are bound to ("cell", c) with c a possibly symbolic integer cell:
    case split over the input's finite range (If-chain), definedness = index in range."""
    for k, v in env.items():
        if isinstance(v, tuple) and v and v[0] == "cell":
            cell = v[1]
            iv = _intval(cell)
            if iv is not None:
                env2 = dict(env)
                env2[k] = iv
                if k in ins and not (0 <= iv < ins[k][1]):
                    raise OracleUndefined("substituted value out of range")
                return _denote_with_symbolic_ints(a, env2, leaves, ins)
            n = ins[k][1]
            opts = []
            for j in range(n):
                env2 = dict(env)
                env2[k] = j
                opts.append(_denote_with_symbolic_ints(a, env2, leaves, ins))
            return _select(opts, cell)
    return denote(a, env, leaves)


def free_points(inputs):
    """all assignments of the bounded-integer inputs"""
    names = [k for k, d in inputs.items() if d[0] == "bint"]
    for pt in itertools.product(*(range(inputs[k][1]) for k in names)):
        yield dict(zip(names, pt))
