"""Generators of Prog families (exhaustive up to a stated depth from templates; seeded sampling beyond)."""
import itertools
import random

from .prog import (IllTyped, align, binary, cat, constant, depth, einsum, getitem, getitem_at, getslice, independent, lambda_, leaf, num,
                   outreduce, reduce_, reshape, show, slice_, stack, subs, type_of, unary, var)

SIZES = {"i": 2, "j": 3, "k": 2, "l": 1, "m": 4}


def _leaf(name, names, shape=(), carrier="real"):
    return leaf(name, tuple((n, SIZES[n]) for n in names), shape, carrier)


THEMES = {
    # theme -> carrier, unary ops, binary ops, reduce ops, output reductions
    "real": dict(carrier="real", unary=("neg", "abs", "exp", "tanh", "sigmoid"),
                 binary=("add", "sub", "mul", "max", "min", "lt", "ge", "eq"),
                 reduce=("add", "mul", "max", "min"), outred=("sum", "prod", "amax", "amin", "mean", "var")),
    "pos": dict(carrier="pos", unary=("log", "sqrt", "log1p", "reciprocal"),
                binary=("truediv", "mul", "add", "pow2"), reduce=("add", "mul"), outred=("sum", "prod", "std")),
    "log": dict(carrier="log", unary=("exp",), binary=("add", "logaddexp", "max", "min"),
                reduce=("logaddexp", "add", "max", "min"), outred=("logsumexp", "sum", "amax")),
    "bool": dict(carrier="bool", unary=("invert",), binary=("and_", "or_", "xor", "eq", "ne"),
                 reduce=("and_", "or_", "xor"), outred=("all", "any")),
    "int": dict(carrier=("int", 3), unary=(), binary=("add", "mul", "max", "min", "floordiv1", "mod1", "lt", "eq", "sub"),
                reduce=("add", "max", "min", "mul"), outred=()),
}


def atoms(theme):
    c = THEMES[theme]["carrier"]
    A = [
        _leaf("x", ("i", "j"), (), c),
        _leaf("y", ("j", "k"), (), c),
        _leaf("z", ("k",), (), c),
        _leaf("s", (), (), c),
        _leaf("u", ("j", "i"), (), c),
        _leaf("t", ("l", "i"), (), c),
        _leaf("v", ("i", "k"), (), c),
        _leaf("vk", ("k", "i"), (), c),
    ]
    E = [
        _leaf("e", ("i",), (2,), c),
        _leaf("f", ("j",), (3, 2), c),
        _leaf("g", (), (2, 3), c),
        _leaf("h", ("k", "i"), (1, 2), c),
        _leaf("hh", ("k", "i"), (2,), c),
    ]
    return A, E


def const(theme):
    if theme in ("real", "pos"):
        return [num(2.0), num(0.5)]
    if theme == "log":
        return [num(0.0), num(-1.5)]
    if theme == "bool":
        return []
    return [num(2, 3), num(1, 2)]


def _bin(op, a, b):
    if op == "pow2":
        return binary("pow", a, num(2.0))
    if op == "floordiv1":   # divisor >= 1 : b + 1
        return binary("floordiv", a, binary("add", b, num(1, 2)))
    if op == "mod1":
        return binary("mod", a, binary("add", b, num(1, 2)))
    return binary(op, a, b)


def well_typed(e):
    try:
        type_of(e)
        return True
    except IllTyped:
        return False
    except Exception:
        return False


def wrappers(theme, e, rng=None, full=True):
    """all one-step extensions of expression e within a theme"""
    T = THEMES[theme]
    A, E = atoms(theme)
    try:
        ins, (dtype, shape) = type_of(e)
    except Exception:
        return
    names = list(ins)
    # unary
    for op in T["unary"]:
        yield unary(op, e)
    # binary with atoms / constants (both orders)
    others = A[:3] + const(theme) + (E[:1] if shape else [])
    for op in T["binary"]:
        for o in others:
            yield _bin(op, e, o)
            if op in ("sub", "truediv", "lt", "ge", "max", "floordiv1", "mod1"):
                yield _bin(op, o, e)
    # reduce over every non-empty subset of bint inputs, plus an unrelated variable
    bnames = [(k, d[1]) for k, d in ins.items() if d[0] == "bint"]
    for op in T["reduce"]:
        for r in range(1, len(bnames) + 1):
            for sub in itertools.combinations(bnames, r):
                yield reduce_(op, e, sub)
        yield reduce_(op, e, (("q", 3),))
        if bnames:
            yield reduce_(op, e, (bnames[0], ("q", 2)))
    # substitution
    for k, n in bnames:
        yield subs(e, ((k, num(n - 1, n)),))
        yield subs(e, ((k, var("v", ("bint", n))),))                  # fresh rename
        yield subs(e, ((k, _leaf_idx("ix%d" % n, ("k",), n)),))         # index tensor with another input
        yield subs(e, ((k, _leaf_idx("iy%d" % n, ("m", "k"), n)),))    # index tensor, two inputs
        yield subs(e, ((k, slice_("w", 0, n, 2, n)),))
        if n >= 2:
            yield subs(e, ((k, slice_(k, 1, n, 1, n)),))                  # slice keeping the name
        for k2, n2 in bnames:
            if k2 != k and n2 == n:
                yield subs(e, ((k, var(k2, ("bint", n2))),))          # diagonal / collision
                yield subs(e, ((k, var(k2, ("bint", n2))), (k2, var(k, ("bint", n)))))   # swap
        yield subs(e, ((k, num(0, n)), ("zz", num(0, 2))))            # key that is not an input
    if len(bnames) >= 2:
        (k1, n1), (k2, n2) = bnames[:2]
        yield subs(e, ((k1, num(0, n1)), (k2, _leaf_idx("ix%d" % n2, ("k",), n2))))
    # output-shape ops
    if not shape:      # reductions of a SCALAR output (axis=None): numpy keeps the shape () also with keepdims=True
        for op in T["outred"]:
            for kd in (False, True):
                yield outreduce(op, e, None, kd)
    if shape:
        for op in T["outred"]:
            for ax in [None] + list(range(-len(shape), len(shape))):
                for kd in (False, True):
                    yield outreduce(op, e, ax, kd)
        # TUPLE axes with members of either sign (each member refers to the output shape only)
        r_ = len(shape)
        tups = [(0,), (-1,)] if r_ == 1 else [(0, 1), (-2, -1), (0, -1), (-2, 1), (-1,), (1, 0)] if r_ == 2 else [(0, -1), (-3, -2), (1, -1), (-1, 0, 1)]
        for op in T["outred"]:
            if op in ("argmax", "argmin"):
                continue
            for ax in tups:
                yield outreduce(op, e, ax, ax[0] < 0)
        yield getitem(e, num(shape[0] - 1, shape[0]))
        yield getitem(e, var("gi", ("bint", shape[0])))
        yield getitem(e, _leaf_idx("ig%d" % shape[0], ("k",), shape[0]))
        if len(shape) >= 2:        # index a NON-leading event dim: x[:, k]
            yield getitem_at(e, num(shape[1] - 1, shape[1]), 1)
            yield getitem_at(e, var("gj", ("bint", shape[1])), 1)
            yield getitem_at(e, _leaf_idx("ih%d" % shape[1], ("k",), shape[1]), 1)
        if len(bnames) >= 2:      # index tensor over the SAME inputs in a different order
            yield getitem(e, leaf("ir%d_%s" % (shape[0], "".join(k for k, _ in bnames)), tuple(reversed(bnames)), (), ("int", shape[0])))
        for index in (0, -1, slice(None), slice(1, None), slice(None, None, 2), None, Ellipsis,
                      (Ellipsis, 0), (slice(None), None), (None, Ellipsis)) + (((0, slice(None)), (Ellipsis, slice(0, 1)), (slice(None), -1)) if len(shape) > 1 else ()):
            yield getslice(e, index)
        n = 1
        for s in shape:
            n *= s
        for sh in {(n,), (1, n), (n, 1)} | ({(shape[1], shape[0])} if len(shape) == 2 else set()):
            if sh != tuple(shape):
                yield reshape(e, sh)
    # binders / structure
    for k, n in bnames:
        yield lambda_(k, n, e)
    yield lambda_("lq", 2, e)
    yield stack("st", (e, e))
    for o in others[:2]:
        try:
            if type_of(o)[1] == (dtype, shape):
                yield stack("st", (e, o))
                yield stack("st", (o, e, o))
        except Exception:
            pass
    for o in A:     # a part that mentions the same inputs in a different order
        try:
            io, to = type_of(o)
            if o != e and set(io) == set(ins) and list(io) != list(ins) and to == (dtype, shape):
                yield stack("st", (e, o))
                yield stack("st", (o, e, o))
        except Exception:
            pass
    for k, n in bnames:
        yield cat(k, (e, e), k)
        yield cat("c", (e, subs(e, ((k, slice_(k, 0, max(1, n - 1), 1, n)),))), k)
    if names:
        yield align(e, tuple(reversed(names)))
    if e[0] != "constant":
        yield constant((("cz", 2),), e)
        yield constant((("cz", 2), ("cy", 3)), e)


def _leaf_idx(name, names, n):
    return leaf(name, tuple((k, SIZES[k]) for k in names), (), ("int", n))


def einsum_progs(theme="real"):
    c = THEMES[theme]["carrier"]
    a = _leaf("ea", ("i",), (2, 3), c)
    b = _leaf("eb", ("j",), (3, 2), c)
    v = _leaf("ev", (), (3,), c)
    m = _leaf("em", ("i", "k"), (2, 2), c)
    out = [
        einsum("ab,bc->ac", (a, b)), einsum("ab,bc->ca", (a, b)), einsum("ab,b->a", (a, v)), einsum("ab->b", (a,)),
        einsum("ab->", (a,)), einsum("ab,ba->", (a, b)), einsum("ab,ba->ab", (a, b)), einsum("aa->a", (m,)),
        einsum("ab,bc,cd->ad", (a, b, m)), einsum("ab,b,bc->c", (a, v, b)), einsum("a,a->a", (v, v)), einsum("ab->ba", (a,)),
    ]
    return out


def constant_progs(theme="real"):
    """Constant(const_inputs, arg): reductions over constant and ordinary inputs together, binary ops between
    Constants / tensors sharing and not sharing the constant inputs, unary ops, substitution of a constant input"""
    import itertools
    c = THEMES[theme]["carrier"]
    x = _leaf("cx", ("i", "j"), (), c)
    y = _leaf("cy2", ("j", "k"), (), c)
    s_ = _leaf("cs", (), (), c)
    out = []
    for cin in ((("cz", 2),), (("cz", 2), ("cw", 3))):
        for e in (x, s_):
            k = constant(cin, e)
            names = list(cin) + [(n, SIZES[n]) for n, _ in type_of(e)[0].items()]
            for op in ("add", "mul", "logaddexp"):
                if op == "logaddexp" and theme != "log":
                    continue
                if op != "logaddexp" and theme == "log":
                    continue
                for r in range(1, len(names) + 1):
                    for red in itertools.combinations(names, r):
                        out.append(reduce_(op, k, red))
            for op in ("max", "min"):
                out.append(reduce_(op, k, (cin[0],)))
            out.append(unary("exp" if theme != "log" else "neg", k))
            for op in ("add", "mul", "sub"):
                out.append(_bin(op, k, y))
                out.append(_bin(op, y, k))
                out.append(_bin(op, k, constant((("cz", 2), ("cv", 2)), y)))
                out.append(_bin(op, k, leaf("cq", (("cz", 2),), (), c)))       # the other operand HAS the constant input
                out.append(_bin(op, leaf("cq2", (("cz", 2), ("i", 2)), (), c), k))
            out.append(subs(k, (("cz", num(1, 2)),)))
            out.append(subs(k, (("cz", var("i", ("bint", 2))),)))
            out.append(reduce_("add" if theme != "log" else "logaddexp", _bin("add", k, y), (("cz", 2), ("j", 3))))
    return [e for e in out if e is not None and well_typed(e)]


def nondistributive_progs():
    """reductions over a binary op the reduction does NOT distribute over, with an operand that lacks the reduced
    variable or is a free real variable (the reduction must not be pushed into the other operand)"""
    out = []
    a = _leaf("na", ("i",), (), "real")
    b = _leaf("nb", ("i", "j"), (), "real")
    c_ = _leaf("nc", ("j",), (), "real")
    zv = var("zv", ("real", ()))
    pairs = [("mul", "add"), ("mul", "sub"), ("add", "max"), ("add", "min"), ("max", "min"), ("min", "max"), ("mul", "max"), ("add", "sub"),
             ("max", "sub"), ("add", "mul"), ("max", "add"), ("min", "add")]
    for red, bin_ in pairs:
        for lhs, rhs in ((a, zv), (zv, a), (b, zv), (a, c_), (c_, b), (b, _bin("add", c_, zv))):
            e = _bin(bin_, lhs, rhs)
            if e is None:
                continue
            out.append(reduce_(red, e, (("i", 2),)))
            if "j" in type_of(e)[0]:
                out.append(reduce_(red, e, (("i", 2), ("j", 3))))
                out.append(reduce_("add", reduce_(red, e, (("i", 2),)), (("j", 3),)))
    return [e for e in out if well_typed(e)]


def matmul_progs():
    """x @ y with operands of different output ranks and different (overlapping, nested, disjoint) inputs"""
    out = []
    for (in1, sh1), (in2, sh2) in [
        ((("i", "j"), (3, 2, 2)), (("j",), (2, 2))), ((("i", "j"), (3, 2, 2)), (("i",), (2, 2))), ((("j",), (2, 2)), (("i", "j"), (3, 2, 2))),
        ((("i", "j"), (2, 2)), (("j",), (2,))), ((("j",), (2,)), (("i", "j"), (2, 2))), ((("i", "j"), (2, 2, 2)), (("j", "k"), (2,))),
        ((("i",), (2, 3, 2)), (("k",), (2, 2))), (((), (3, 2, 2)), (("j",), (2, 2))), ((("k", "i"), (2, 2, 3)), (("i", "k"), (3, 2))),
        ((("i", "j"), (3, 1, 2)), (("j",), (2, 2)))]:
        a = leaf("ma", tuple((n, SIZES[n]) for n in in1), sh1, "real")
        b = leaf("mb", tuple((n, SIZES[n]) for n in in2), sh2, "real")
        e = binary("matmul", a, b)
        if well_typed(e):
            out.append(e)
    return out


def stack_hetero_progs():
    """a Stack that stays lazy (a Number / free-variable part), reduced over an input that some part lacks"""
    out = []
    t = _leaf("sh_t", ("j",), (), "real")
    u = _leaf("sh_u", ("j", "k"), (), "real")
    zv = var("zv", ("real", ()))
    for parts in ((num(2.0), t), (t, num(2.0)), (zv, t), (t, zv, u), (num(1.5), u)):
        st = stack("st", parts)
        for op in ("add", "mul", "max"):
            out.append(reduce_(op, st, (("j", 3),)))
            out.append(reduce_(op, st, (("st", len(parts)), ("j", 3))))
    return [e for e in out if well_typed(e)]


def independent_progs():
    f = leaf("fi", (("i", 2),), (), "real")
    x = var("xd", ("real", ()))
    body = binary("mul", f, x)
    body2 = binary("add", binary("mul", f, x), leaf("fj", (("i", 2), ("j", 3)), (), "real"))
    xv = var("xd", ("real", (2,)))
    body3 = binary("mul", f, outreduce("sum", xv, None, False))
    return [independent(body, "xx", "i", "xd"), independent(body2, "xx", "i", "xd"), independent(body3, "xx", "i", "xd"),
            subs(independent(body, "xx", "i", "xd"), (("xx", leaf("fx", (("k", 2),), (2,), "real")),))]


def depth1(theme):
    A, E = atoms(theme)
    seen = set()
    for a in A + E:
        for w in wrappers(theme, a):
            if w not in seen and well_typed(w):
                seen.add(w)
                yield w


def depth2(theme, rng, per_inner=None):
    """wrappers applied to every depth-1 expression (optionally a seeded subset of the wrappers per inner)"""
    seen = set()
    for inner in depth1(theme):
        ws = [w for w in wrappers(theme, inner) if well_typed(w)]
        if per_inner is not None and len(ws) > per_inner:
            ws = rng.sample(ws, per_inner)
        for w in ws:
            if w not in seen:
                seen.add(w)
                yield w


def sample_deep(theme, rng, n, d=3):
    out = []
    A, E = atoms(theme)
    tries = 0
    while len(out) < n and tries < 50 * n:
        tries += 1
        e = rng.choice(A + E)
        for _ in range(d):
            ws = [w for w in wrappers(theme, e) if well_typed(w)]
            if not ws:
                break
            e = rng.choice(ws)
        if well_typed(e):
            out.append(e)
    return out
