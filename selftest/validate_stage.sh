#!/bin/sh
# usage: validate_stage.sh <staging dir> <tag prefix>   (4 mutants in parallel)
STAGE="$1"; PFX="$2"
for d in $STAGE/C*/[ABC]*; do [ -f "$d/patch.diff" ] || continue; id=$(basename $(dirname $d)); x=$(basename $d | cut -c1); echo "$d ${PFX}${id}_$x"; done | xargs -P 4 -L 1 /verif/selftest/validate_mutant.sh
