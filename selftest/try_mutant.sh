#!/bin/sh
# usage: selftest/try_mutant.sh <patch.diff> <Cxx> [<Cyy> ...]   -- applies the patch to /repo, runs the quick checks, reverts
set -u
P="$1"; shift
cd /repo || exit 2
if ! git diff --quiet; then echo "repo not clean"; exit 2; fi
if ! git apply --check "$P" 2>/dev/null; then
  if ! git apply --3way --check "$P" 2>/dev/null; then echo "PATCH-DOES-NOT-APPLY $P"; exit 2; fi
fi
git apply "$P" || { echo "apply failed"; exit 2; }
cd /verif
for c in "$@"; do
  out=$(./bin/vcheck "$c" --tier quick 2>&1)
  code=$?
  nv=$(echo "$out" | grep -c "^VIOLATION")
  echo "MUTANT $(basename $(dirname $P))/$(basename $P) check=$c exit=$code violations=$nv"
  echo "$out" | grep -A1 "^VIOLATION" | head -4
  echo "$out" | grep "HARNESS-ERROR" | head -2
done
cd /repo && git checkout -- . && git status --short | head -3
