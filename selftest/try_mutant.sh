#!/bin/sh
# usage: selftest/try_mutant.sh <patch.diff> <Cxx> [<Cyy> ...]
# applies the patch to a scratch worktree of /repo (outside /repo and /verif), runs the quick checks against it
# (VERIF_REPO; with STOP_ON_DETECT=1 it stops after the first check that reports), removes the worktree.  /repo itself is never touched, so several mutants can run in parallel.
set -u
P=$(readlink -f "$1"); shift
TAG=$(echo "$P" | tr '/.' '__')
W=/tmp/mw_$TAG
O=/tmp/mo_$TAG
rm -rf "$W" "$O"; mkdir -p "$O"
git -C /repo worktree add -q --detach "$W" HEAD || exit 2
cd "$W"
if ! git apply "$P" 2>/dev/null; then
  if ! git apply --3way "$P" 2>/dev/null; then echo "PATCH-DOES-NOT-APPLY $P"; cd /; git -C /repo worktree remove --force "$W"; exit 2; fi
fi
cd /verif
for c in "$@"; do
  out=$(VERIF_REPO="$W" VERIF_OUT="$O" VERIF_JOBS=${VERIF_JOBS:-8} ./bin/vcheck "$c" --tier quick 2>&1)
  code=$?
  nv=$(echo "$out" | grep -c "^VIOLATION")
  echo "MUTANT $P check=$c exit=$code violations=$nv"
  echo "$out" | grep -A1 "^VIOLATION" | head -4
  echo "$out" | grep "HARNESS-ERROR" | head -2
  if [ "${STOP_ON_DETECT:-0}" = 1 ] && [ $code = 1 ]; then break; fi
done
git -C /repo worktree remove --force "$W"; rm -rf "$O"
