#!/usr/bin/env python3
"""prints the markdown table of DESIGN.md section 0.5 from /verif/seeded/*/meta.json"""
import json
import os
import re

ROOT = os.path.dirname(os.path.dirname(os.path.abspath(__file__)))
rows = []
for name in sorted(os.listdir(os.path.join(ROOT, "seeded"))):
    mp = os.path.join(ROOT, "seeded", name, "meta.json")
    if not os.path.exists(mp):
        continue
    m = json.load(open(mp))
    patch = open(os.path.join(ROOT, "seeded", name, "patch.diff")).read()
    files = re.findall(r"^\+\+\+ b/(\S+)", patch, re.M)
    hunks = re.findall(r"^@@.*@@ (.*)$", patch, re.M)
    site = "%s %s" % (files[0].replace("funsor/", "") if files else "?", re.sub(r"\(.*", "", hunks[0]).replace("def ", "").replace("class ", "").strip() if hunks else "")
    det = sorted(m.get("detected_by", {}))
    run = sorted(m.get("checks_run", {}))
    missed = [c for c in run if c not in det]
    rows.append((m["property"], name, site, ", ".join(det) or "**none**", ", ".join(missed), m.get("note", "")))
print("| seeded change | site | caught by (exit 1, replayed VIOLATION) | also run, silent | note |")
print("|---|---|---|---|---|")
for prop, name, site, det, missed, note in rows:
    print("| %s | `%s` | %s | %s | %s |" % (name, site, det, missed, note))
