#!/bin/sh
# runs every staged mutant against the check of its own property (+ related checks), 4 mutants in parallel
STAGE=${1:-/tmp/seeded_staging}
cd /verif
for d in $STAGE/C*/[ABC]*; do
  [ -f "$d/patch.diff" ] || continue
  id=$(basename $(dirname $d))
  [ -f checks/$(echo $id | tr 'A-Z' 'a-z').py ] || { echo "SKIP $id (no check yet)" >&2; continue; }
  extra=""
  case $id in
    C01) extra="C02 C15";; C02) extra="C08 C03 C01 C15";; C04) extra="C01 C12";; C05) extra="C04 C12 C10 C02 C08";; C06) extra="C01";; C08) extra="C02 C15";;
    C11) extra="C15";; C09) extra="C01 C08 C15";; C15) extra="C08";; C03) extra="C02 C08 C15";; C20) extra="C15 C19";; C10) extra="C15";; C14) extra="C12 C20 C15";; C19) extra="C06 C01 C04";; C12) extra="C04";; C18) extra="C01";;
  esac
  echo "$d/patch.diff $id $extra" | sed "s/ *$//"
done | VERIF_JOBS=${VERIF_JOBS:-4} xargs -P ${MUTANTS_PAR:-4} -L 1 ./selftest/try_mutant.sh 2>&1 | grep "^MUTANT\|PATCH-DOES"
