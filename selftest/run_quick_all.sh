#!/bin/sh
# usage: selftest/run_quick_all.sh [seed] [tier]  -- runs every claimed check on the unchanged tree, prints exit codes
SEED=${1:-0}; TIER=${2:-quick}
cd /verif
for id in $(python3 -c "import json; print(' '.join(c['property_id'] for c in json.load(open('MANIFEST.json'))['checks']))"); do
  s=$(date +%s)
  out=$(VERIF_SEED=$SEED ./bin/vcheck $id --tier $TIER 2>&1); code=$?
  e=$(date +%s)
  echo "$id seed=$SEED exit=$code wall=$((e-s))s :: $(echo "$out" | grep "^$id $TIER" | tail -1 | cut -c1-200)"
  echo "$out" | grep "^VIOLATION\|HARNESS-ERROR" | head -3
done
