#!/bin/sh
# usage: validate_mutant.sh <dir with patch.diff demo.py> <tag>
# confirms in a scratch worktree of /repo HEAD: demo passes without the patch, fails with it, and the full existing
# test suite still passes with the patch.  Writes /tmp/mutant_validation/<tag>.txt
D="$1"; TAG="$2"
W=/tmp/mv_$TAG
OUT=/tmp/mutant_validation/$TAG.txt
rm -rf "$W"; git -C /repo worktree add -q --detach "$W" HEAD || exit 2
cd "$W"
mkdir -p _out/X && cp "$D/demo.py" _out/X/demo.py
/venv/bin/python _out/X/demo.py > /tmp/mutant_validation/$TAG.demo_clean.log 2>&1; c0=$?
if git apply "$D/patch.diff" 2>/dev/null || git apply --3way "$D/patch.diff" 2>/dev/null; then applied=yes; else applied=no; fi
git reset -q 2>/dev/null
/venv/bin/python _out/X/demo.py > /tmp/mutant_validation/$TAG.demo_mut.log 2>&1; c1=$?
if [ "$applied" = yes ]; then
  /venv/bin/python -m pytest -q -p no:cacheprovider --timeout=900 --continue-on-collection-errors test > /tmp/mutant_validation/$TAG.tests.log 2>&1
  summary=$(tail -1 /tmp/mutant_validation/$TAG.tests.log)
else
  summary="patch does not apply"
fi
echo "tag=$TAG applied=$applied demo_clean_exit=$c0 demo_mutant_exit=$c1 tests: $summary" > "$OUT"
cd /; git -C /repo worktree remove --force "$W"
cat "$OUT"
