#!/usr/bin/env python3
"""Curate validated seeded changes into /verif/seeded/<prop>_<X>/ {patch.diff, demo.py, meta.json}.
usage: curate.py <staging dir> <validation dir> <detection log> [<round tag>]
A change is kept only if (i) the patch applies to /repo HEAD, (ii) the demo passes on the clean tree and fails with the
patch, (iii) the whole existing test suite still passes with the patch (7666 passed, no failures)."""
import json
import os
import re
import shutil
import sys

stage, valdir, detlog = sys.argv[1:4]
tag = sys.argv[4] if len(sys.argv) > 4 else ""
ROOT = os.path.dirname(os.path.dirname(os.path.abspath(__file__)))
det = {}
if os.path.exists(detlog):
    for line in open(detlog):
        m = re.match(r"MUTANT (\S+)/(C\d+)/(\w+)/patch.diff check=(C\d+) exit=(\d+) violations=(\d+)", line)
        if m:
            det.setdefault((m.group(2), m.group(3)), {})[m.group(4)] = dict(exit=int(m.group(5)), violations=int(m.group(6)))
recheck = {}
for fn in ("recheck_r123.log", "recheck_final.log", "recheck_final_b.log"):     # later files win (final HEAD)
    fp = os.path.join(valdir, fn)
    if os.path.exists(fp):
        for line in open(fp):
            m = re.match(r"recheck tag=(\S+) (head=\S+ applied=\S+ demo_clean_exit=\d+ demo_mutant_exit=\d+)", line)
            if m and "applied=no" not in line and "demo_clean_exit=0" in line:
                recheck[m.group(1)] = m.group(2)
kept, dropped = [], []
for prop in sorted(os.listdir(stage)):
    for x in sorted(os.listdir(os.path.join(stage, prop))):
        d = os.path.join(stage, prop, x)
        v = os.path.join(valdir, "%s%s_%s.txt" % (tag, prop, x[0]))
        if not os.path.isdir(d) or not os.path.exists(v):
            continue
        t = open(v).read().strip()
        ok = "applied=yes" in t and "demo_clean_exit=0" in t and "demo_mutant_exit=0" not in t and re.search(r"tests: 7666 passed", t) and " failed" not in t
        name = "%s%s_%s" % (tag, prop, x[0])
        if not ok:
            dropped.append((name, t))
            continue
        out = os.path.join(ROOT, "seeded", name)
        os.makedirs(out, exist_ok=True)
        shutil.copy(os.path.join(d, "patch.diff"), out)
        shutil.copy(os.path.join(d, "demo.py"), out)
        notes = open(os.path.join(d, "notes.md")).read() if os.path.exists(os.path.join(d, "notes.md")) else ""
        detections = det.get((prop, x), {})
        meta = dict(property=prop, name=name, origin="sub-agent given only the property text and a scratch worktree of /repo (round %s)" % (tag.strip("r_") or "1"),
                    needs_to_manifest=notes[:3000],
                    confirmed=dict(what="scratch worktree of /repo HEAD: demo.py on the clean tree, demo.py with patch.diff applied, then the whole `test` directory with the patch applied",
                                   result=t,
                                   recheck_on_final_head=recheck.get(name, "") or "validated on the final HEAD itself (result above)"),
                    detected_by={c: r for c, r in detections.items() if r["exit"] == 1},
                    checks_run=detections,
                    how_to_rerun="selftest/try_mutant.sh seeded/%s/patch.diff %s" % (name, " ".join(sorted(detections)) or prop))
        notes_file = os.path.join(ROOT, "selftest", "seeded_notes.json")
        if os.path.exists(notes_file):
            meta["note"] = json.load(open(notes_file)).get(name, "")
        json.dump(meta, open(os.path.join(out, "meta.json"), "w"), indent=1)
        kept.append(name)
print("kept", kept)
print("dropped", dropped)
