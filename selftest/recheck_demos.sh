#!/bin/sh
# usage: recheck_demos.sh <staging dir> <tag prefix>
# cheap re-confirmation on the CURRENT /repo HEAD of changes that were fully validated on an earlier HEAD:
# the patch still applies, the demo passes on the clean tree and fails with the patch.  One scratch worktree, removed at the end.
STAGE="$1"; PFX="$2"
W=/tmp/rd_$(echo "$PFX$STAGE" | tr '/.' '__')
rm -rf "$W"; git -C /repo worktree add -q --detach "$W" HEAD || exit 2
cd "$W"
for d in $STAGE/C*/[ABC]*; do
  [ -f "$d/patch.diff" ] || continue
  id=$(basename $(dirname $d)); x=$(basename $d | cut -c1)
  git reset -q --hard; git clean -fdq
  mkdir -p _out/X; cp "$d/demo.py" _out/X/demo.py
  /venv/bin/python _out/X/demo.py > /dev/null 2>&1; c0=$?
  if git apply "$d/patch.diff" 2>/dev/null; then a=yes; elif git apply --3way "$d/patch.diff" 2>/dev/null; then git reset -q; a=3way; else a=no; fi
  /venv/bin/python _out/X/demo.py > /dev/null 2>&1; c1=$?
  echo "recheck tag=${PFX}${id}_$x head=$(git rev-parse --short HEAD) applied=$a demo_clean_exit=$c0 demo_mutant_exit=$c1"
done
cd /; git -C /repo worktree remove --force "$W"
