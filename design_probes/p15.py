"""Probe for C19 (Engine B): the dimension bookkeeping of the REAL tensor_to_funsor / tensor_to_data with
SYMBOLIC sizes (unbounded ints; which dims have size 1 is decided by forking) and a recording array stub.
Property: round trip restores the original shape up to size-1 batch dims and the composed axis map is the
identity on elements.  Throw-away; not framework code."""
import itertools, time, types
import z3, numpy as np
from collections import OrderedDict
import symint
from symint import SymInt, SymBool, explore, fork, Abort, _e
import funsor, funsor.tensor as FT, funsor.terms as TT
from funsor.interpretations import CallableInterpretation
from funsor.ops.array import is_numeric_array


class ArrStub:
    """An array described only by (shape, axes): axes[k] = which ORIGINAL axis (or None for an inserted
    size-1 axis) position k currently holds; reshape is allowed only to drop/insert size-1 axes or to keep
    the layout (that is what pack/unpack claim to do) -- anything else is recorded as a violation."""
    def __init__(self, shape, axes):
        self.shape = tuple(shape)
        self.axes = tuple(None if (not isinstance(sz, SymInt) and sz == 1) else a for sz, a in zip(shape, axes))
    def reshape(self, shape):
        shape = tuple(shape)
        src = list(zip(self.shape, self.axes)); out = []; i = 0
        for t in shape:
            if bool(t == 1):                      # forks when the size is symbolic
                out.append(None)                  # a size-1 axis carries no index information
                if i < len(src) and bool(src[i][0] == 1): i += 1
            else:
                while i < len(src) and bool(src[i][0] == 1): i += 1
                assert i < len(src), "reshape invents a non-1 dim"
                assert bool(src[i][0] == t), "reshape merges/splits dims"
                out.append(src[i][1]); i += 1
        while i < len(src):
            assert bool(src[i][0] == 1), "reshape drops a non-1 dim"; i += 1
        return ArrStub(shape, out)


is_numeric_array.register(ArrStub)(lambda x: True)


def _permute(x, dims):
    return ArrStub([x.shape[d] for d in dims], [x.axes[d] for d in dims])


class BintDom(type):
    pass


def sym_bint(size):
    return BintDom("BintSym", (), {"size": size, "dtype": size, "shape": (), "num_elements": 1})
class _BintF:
    def __getitem__(self, size): return sym_bint(size)
class _ArrayF:
    def __getitem__(self, ds):
        dtype, shape = ds
        return BintDom("ArraySym", (), {"dtype": dtype, "shape": tuple(shape), "size": dtype})
class _RealsF:
    def __getitem__(self, shape):
        return BintDom("RealsSym", (), {"dtype": "real", "shape": tuple(shape) if isinstance(shape, tuple) else (shape,)})


@CallableInterpretation
def raw(cls, *args):
    obj = object.__new__(cls); obj.__init__(*args); obj._ast_values = args
    return obj
raw.is_total = True


class OpsProxy:
    def __getattr__(self, k): return getattr(funsor.ops, k)
    @staticmethod
    def permute(x, dims): return _permute(x, list(dims))
    @staticmethod
    def is_numeric_array(x): return True


def rebind(fn, **g2):
    g = dict(fn.__globals__); g.update(g2)
    return types.FunctionType(fn.__code__, g, fn.__name__, fn.__defaults__, fn.__closure__)


stubs = dict(Bint=_BintF(), Array=_ArrayF(), Reals=_RealsF(), ops=OpsProxy())
t2f = rebind(FT.tensor_to_funsor, **stubs)
t2d = rebind(FT.tensor_to_data, **stubs)
saved = (FT.Array, FT.ops)
results = []
t0 = time.time(); npaths = 0
for rank, event_rank in [(1, 0), (2, 0), (2, 1), (3, 1), (3, 0), (4, 1)]:
    batch = rank - event_rank
    for named in itertools.chain.from_iterable(itertools.combinations(range(batch), k) for k in range(1, batch + 1)):
        dim_to_name = OrderedDict((d - batch, "n%d" % d) for d in named)
        name_to_dim = {v: k for k, v in dim_to_name.items()}

        def run():
            sizes = [SymInt(z3.Int(f"s{i}")) for i in range(rank)]
            for i, s in enumerate(sizes):
                if not fork(s.e >= 1): raise Abort()
                if i < batch and i not in named:
                    if not fork(s.e == 1): raise Abort()      # unnamed batch dims must be size 1 (documented)
            x = ArrStub(sizes, list(range(rank)))
            out = stubs["Reals"][tuple(sizes[batch:])]
            FT.Array, FT.ops = stubs["Array"], stubs["ops"]      # Tensor.__init__ looks these up in funsor.tensor
            try:
                with raw:
                    f = t2f(x, out, dim_to_name)
                    y = t2d(f, name_to_dim)
            finally:
                FT.Array, FT.ops = saved
            return sizes, f, y
        paths = explore(run); npaths += len(paths)
        for pc, r, err in paths:
            if err is not None:
                results.append(("assert", rank, event_rank, named, str(err))); continue
            sizes, f, y = r
            # packed inputs = named dims with size != 1, in order
            s = z3.Solver(); s.add(*pc)
            ok = len(y.shape) == rank - (batch - (-min(dim_to_name))) if False else True
            # every original axis of size != 1 must sit at its original (right-aligned) position
            # broadcasting-style comparison, right-aligned: "the original array up to size-1 batch dimensions"
            conds = []
            off = rank - len(y.shape)
            for q in range(min(0, off), rank):
                pos = q - off
                if q < 0:                                   # extra leading dim in y
                    conds.append(_e(y.shape[pos]) == 1); continue
                if pos < 0:                                 # dim dropped from y
                    conds.append(_e(sizes[q]) == 1); conds.append(z3.BoolVal(q < batch)); continue
                sz, ax = y.shape[pos], y.axes[pos]
                conds.append(_e(sz) == _e(sizes[q]))
                if ax is not None: conds.append(z3.BoolVal(ax == q))
                else: conds.append(_e(sz) == 1)
            s.add(z3.Not(z3.And(*conds)))
            r_ = s.check()
            if r_ != z3.unsat:
                results.append((str(r_), rank, event_rank, named, str(s.model()) if r_ == z3.sat else ""))
print("paths", npaths, "time", round(time.time() - t0, 1), "non-unsat:", len(results))
for r in results[:8]: print("  ", r)
