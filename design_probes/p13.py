"""Probe for C06 (Engine B): run the REAL find_domain rules on symbolic Bint sizes and decide the declared
value range against the op's actual range, for unbounded sizes.  Throw-away; not framework code."""
import types, time, z3
import symint
from symint import SymInt, SymBool, explore, fork, Abort, _e
import funsor, funsor.ops as ops
from funsor.domains import find_domain
import funsor.domains as D


class ArrayStub:
    """duck-typed domain with symbolic dtype"""
    def __init__(self, dtype, shape): self.dtype, self.shape = dtype, shape
    @property
    def size(self): return self.dtype
class _ArrayF:
    def __getitem__(self, ds): return ArrayStub(*ds)
class _RealsF:
    def __getitem__(self, shape): return ArrayStub("real", shape if isinstance(shape, tuple) else (shape,))


def rebound(op):
    fn = find_domain.dispatch(type(op))
    g = dict(fn.__globals__); g.update(ArrayType=ArrayStub, Array=_ArrayF(), Reals=_RealsF())
    return types.FunctionType(fn.__code__, g, fn.__name__, fn.__defaults__, fn.__closure__), fn.__name__


def pyop(op, x, y):
    if op is ops.add: return x + y
    if op is ops.mul: return x * y
    if op is ops.max: return z3.If(x >= y, x, y)
    if op is ops.min: return z3.If(x <= y, x, y)
    if op is ops.floordiv: return x / y      # y >= 1
    if op is ops.mod: return x % y
    raise NotImplementedError


# SymInt needs max/min through comparisons (builtin max works via __gt__ forks) - already available
for op, ypos in [(ops.add, False), (ops.mul, False), (ops.max, False), (ops.min, False), (ops.floordiv, True), (ops.mod, True)]:
    fn, name = rebound(op)
    a, b, x, y = z3.Ints("a b x y")

    def run():
        for c in (a >= 1, b >= (2 if ypos else 1)):
            if not fork(c): raise Abort()
        out = fn(op, ArrayStub(SymInt(a), ()), ArrayStub(SymInt(b), ()))
        return out.dtype
    t0 = time.time()
    paths = explore(run)
    verdicts = []
    for pc, size, err in paths:
        if err is not None: verdicts.append("assert:" + str(err)); continue
        s = z3.Solver(); s.set("timeout", 20000); s.add(*pc)
        s.add(x >= 0, x < a, y >= (1 if ypos else 0), y < b)
        if op is ops.mul: s.add(a <= 16, b <= 16)       # keep nonlinear query bounded
        val = pyop(op, x, y)
        s.add(z3.Not(z3.And(val >= 0, val < _e(size))))
        r = s.check()
        verdicts.append(str(r) + (" " + str({str(d): s.model()[d] for d in (a, b, x, y)}) if r == z3.sat else ""))
    print(f"{name:45s} {op} paths={len(paths)} {round(time.time()-t0,2)}s ->", verdicts)
