"""Probe for C17 (Engine B): one inductive step of the interpretation stack from an arbitrary valid pre-state.
Symbolic: depth of the pre-stack, kind of every entry, kind entered, entry form, whether/where the body raises.
Real code: Interpretation.__enter__/__exit__, push/pop, PrioritizedInterpretation layering, memoize(),
ContextDecorator form, substitute()'s temporary push, AdjointTape.  Throw-away; not framework code."""
import time, z3
import symint
from symint import SymInt, explore, fork, Abort
import funsor
import funsor.interpreter as IP
from funsor.interpretations import (eager, lazy, reflect, normalize, sequential, moment_matching, Memoize,
                                    DispatchedInterpretation, PrioritizedInterpretation, memoize)
from funsor.adjoint import AdjointTape
from funsor.terms import Variable, Number, substitute
from funsor import Real, Bint, Tensor

user_partial = DispatchedInterpretation("user_partial")
KINDS = ["eager", "lazy", "reflect", "normalize", "sequential", "moment_matching", "memoize", "user_partial", "adjoint"]


def make(kind):
    return {"eager": eager, "lazy": lazy, "reflect": reflect, "normalize": normalize, "sequential": sequential,
            "moment_matching": moment_matching, "user_partial": user_partial}.get(kind) or \
        (Memoize(IP.get_interpretation()) if kind == "memoize" else AdjointTape())


def choose(name, n):
    """symbolic choice in range(n): a z3 Int decided by forking (the solver only keeps feasible branches)"""
    v = z3.Int(name)
    if not fork(z3.And(v >= 0, v < n)): raise Abort()
    for i in range(n - 1):
        if fork(v == i): return i
    return n - 1


class Boom(Exception):
    pass


SAVED = list(IP._STACK)


def step():
    # ---- arbitrary valid pre-state: [reflect, eager] + up to 4 more total interpretations
    IP._STACK[:] = SAVED
    depth = choose("depth", 4)
    for d in range(depth):
        k = choose(f"pre{d}", 6)                      # total ones only on the raw stack
        IP._STACK.append(make(KINDS[k]))
    pre = list(IP._STACK)
    kind = KINDS[choose("kind", len(KINDS))]
    form = choose("form", 3)                          # 0 with-block, 1 decorator, 2 memoize() generator
    raise_at = choose("raise_at", 4)                  # 0..2 position in body, 3 = no exception
    interp = make(kind)
    seen = {}

    def body():
        top = IP.get_interpretation()
        seen["top"] = top
        for pos in range(3):
            if raise_at == pos: raise Boom()
            if pos == 0:   # a nested well-formed block and a substitution (temporary push inside substitute())
                with lazy:
                    (Variable("x", Real) + 1)(x=2.0)
            if pos == 1:
                seen["probe"] = type(Variable("x", Real) + Number(1.0)).__name__
        return True
    try:
        if form == 0:
            with interp: body()
        elif form == 1:
            interp(body)()
        else:
            with memoize(): body()
    except Boom:
        pass
    post = list(IP._STACK)
    ok_restore = len(post) == len(pre) and all(a is b for a, b in zip(pre, post))
    top = seen.get("top")
    if form == 2:
        ok_top = isinstance(top, Memoize)
    elif getattr(interp, "is_total", False):
        ok_top = top is interp
    else:
        prev = pre[-1]
        ok_top = isinstance(top, PrioritizedInterpretation) and top.subinterpretations[0] is interp \
            and tuple(top.subinterpretations[1:]) == tuple(prev.subinterpretations)
    return dict(kind=kind, form=form, raise_at=raise_at, depth=depth, restore=ok_restore, top=ok_top)


t0 = time.time()
paths = explore(step)
IP._STACK[:] = SAVED
bad = [(r, e) for pc, r, e in paths if e is not None or not (r["restore"] and r["top"])]
print("paths", len(paths), "time", round(time.time() - t0, 1), "violations", len(bad))
for b in bad[:5]: print("  ", b)
