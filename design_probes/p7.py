"""C16 probe: deep_issubclass on structured types whose LEAVES are symbolic (relation R on atoms is a z3 function)."""
import typing, z3, itertools, time
import symint
from symint import explore, fork, SymBool, Abort
import funsor.typing as FT
from funsor.terms import Funsor, Binary, Number, Variable
from funsor.typing import GenericTypeMeta

atoms = [type(f"A{i}", (), {}) for i in range(4)]
aid = {a: i for i, a in enumerate(atoms)}
R = z3.Function("R", z3.IntSort(), z3.IntSort(), z3.BoolSort())
orig = FT.deep_issubclass
def sym_issub(subcls, cls):
    if subcls in aid and cls in aid:
        return SymBool(R(aid[subcls], aid[cls]))
    if (subcls in aid) != (cls in aid) and not (cls is typing.Any or typing.get_origin(cls) is typing.Union or typing.get_origin(subcls) is typing.Union):
        return False  # atom vs structured type
    return orig.__wrapped__(subcls, cls)
FT.deep_issubclass = sym_issub

def formula(S, T_):
    """path-sum formula of deep_issubclass(S, T) over the symbolic atom relation"""
    paths = explore(lambda: issubclass(FT.typing_wrap(S), FT.typing_wrap(T_)))
    return z3.Or(*[z3.And(*pc) if pc else z3.BoolVal(True) for pc, r, e in paths if r]), len(paths)

A, B, C, D = atoms
class G(metaclass=GenericTypeMeta):  # a parametric class like funsor terms
    pass
shapes = {
    "Tuple[a,b]": lambda a, b: typing.Tuple[a, b],
    "Tuple[a,...]": lambda a, b: typing.Tuple[a, ...],
    "Tuple[a]": lambda a, b: typing.Tuple[a],
    "Union[a,b]": lambda a, b: typing.Union[a, b],
    "FrozenSet[a]": lambda a, b: typing.FrozenSet[a],
    "G[a,b]": lambda a, b: G[a, b],
    "Tuple[Union[a,b],a]": lambda a, b: typing.Tuple[typing.Union[a, b], a],
}
axioms = []
i, j, k = z3.Ints("i j k")
axioms.append(z3.ForAll([i], R(i, i)))
axioms.append(z3.ForAll([i, j, k], z3.Implies(z3.And(R(i, j), R(j, k)), R(i, k))))
t0 = time.time(); n = 0; bad = []
pairs_atoms = [(A, B), (C, D), (A, C)]
for (n1, f1), (n2, f2), (n3, f3) in itertools.product(shapes.items(), repeat=3):
    S, T_, U = f1(A, B), f2(C, D), f3(A, C) if False else f3(atoms[0], atoms[3])
    fST, _ = formula(S, T_); fTU, _ = formula(T_, U); fSU, _ = formula(S, U)
    s = z3.Solver(); s.set("timeout", 5000); s.add(*axioms)
    s.add(fST, fTU, z3.Not(fSU)); n += 1
    r = s.check()
    if r != z3.unsat:
        bad.append((n1, n2, n3, str(r)))
print("transitivity queries", n, "time", round(time.time() - t0, 1), "non-unsat:", bad[:6], len(bad))
# reflexivity
for nme, f in shapes.items():
    S = f(A, B); fSS, np_ = formula(S, S)
    s = z3.Solver(); s.add(*axioms); s.add(z3.Not(fSS))
    print("reflexive", nme, s.check(), "paths", np_)
