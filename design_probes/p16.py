"""Probe for C15: algebraic laws of the published op tables, decided for ALL operand values by running the
REAL op objects (scalar defaults and array registrations) on symbolic scalars.  Throw-away; not framework."""
import math, time, numbers
import numpy as np, z3
import funsor, funsor.ops as ops
import funsor.ops.builtin as B


class S:
    """symbolic scalar over one carrier: 'real' (z3 Real), 'bool' (z3 Bool), 'log' (value=log(e), e>=0)"""
    def __init__(self, e, kind): self.e, self.kind = e, kind
    @staticmethod
    def lift(x, kind):
        if isinstance(x, S): return x
        if kind == "bool": return S(z3.BoolVal(bool(x)), "bool")
        if kind == "log":
            if x == -math.inf: return S(z3.RealVal(0), "log")
            if x == 0: return S(z3.RealVal(1), "log")
            raise NotImplementedError(x)
        if x in (math.inf, -math.inf): return S(("inf", x), "real")
        return S(z3.RealVal(repr(float(x))) if float(x) != int(x) else z3.RealVal(int(x)), "real")
    def _b(self, o, f, lf=None, bf=None):
        o = S.lift(o, self.kind)
        if self.kind == "bool": return S(bf(self.e, o.e), "bool")
        if self.kind == "log": return S(lf(self.e, o.e), "log")
        return S(f(self.e, o.e), "real")
    def __add__(s, o): return s._b(o, lambda a, b: a + b, lambda a, b: a * b)
    __radd__ = __add__
    def __sub__(s, o): return s._b(o, lambda a, b: a - b, lambda a, b: a / b)
    def __mul__(s, o): return s._b(o, lambda a, b: a * b)
    __rmul__ = __mul__
    def __truediv__(s, o): return s._b(o, lambda a, b: a / b)
    def __and__(s, o): return s._b(o, None, None, lambda a, b: z3.And(a, b))
    __rand__ = __and__
    def __or__(s, o): return s._b(o, None, None, lambda a, b: z3.Or(a, b))
    __ror__ = __or__
    def __xor__(s, o): return s._b(o, None, None, lambda a, b: z3.Xor(a, b))
    __rxor__ = __xor__
    def __neg__(s): return S(-s.e, "real")
    def __gt__(s, o): return FORK(s.e > S.lift(o, s.kind).e)
    def __lt__(s, o): return FORK(s.e < S.lift(o, s.kind).e)


class FORK:
    def __init__(self, e): self.e = e
    def __bool__(self): raise RuntimeError("fork")


numbers.Number.register(S)      # let `isinstance(y, Number)` branches of safesub/safediv defaults accept S


def smax(a, b):
    for x, y in ((a, b), (b, a)):
        if isinstance(x, S) and isinstance(x.e, tuple): return y if x.e[1] < 0 else x
    a = S.lift(a, b.kind if isinstance(b, S) else "real"); b = S.lift(b, a.kind)
    return S(z3.If(a.e >= b.e, a.e, b.e), a.kind)
def smin(a, b):
    for x, y in ((a, b), (b, a)):
        if isinstance(x, S) and isinstance(x.e, tuple): return y if x.e[1] > 0 else x
    a = S.lift(a, b.kind if isinstance(b, S) else "real"); b = S.lift(b, a.kind)
    return S(z3.If(a.e <= b.e, a.e, b.e), a.kind)
# the scalar defaults of max/min call the Python builtins (stored as _builtin_max/_builtin_min in ops.builtin)
B._builtin_max, B._builtin_min = smax, smin

x, y, z = z3.Reals("x y z"); p, q, r = z3.Bools("p q r")
CAR = {"real": (lambda: [S(v, "real") for v in (x, y, z)], []),
       "nonneg": (lambda: [S(v, "real") for v in (x, y, z)], [x >= 0, y >= 0, z >= 0]),
       "bool": (lambda: [S(v, "bool") for v in (p, q, r)], []),
       "log": (lambda: [S(v, "log") for v in (x, y, z)], [x >= 0, y >= 0, z >= 0])}


def valid(lhs, rhs, assume):
    s = z3.Solver(); s.set("timeout", 20000); s.add(*assume); s.add(lhs.e != rhs.e)
    r_ = s.check()
    return str(r_) + (" " + str(s.model()) if r_ == z3.sat else "")


carrier_of = {ops.add: "real", ops.mul: "real", ops.max: "real", ops.min: "real", ops.and_: "bool", ops.or_: "bool", ops.xor: "bool"}
print("== UNITS (read from the module) ==")
for op, unit in ops.UNITS.items():
    if op not in carrier_of: print("  ", op, "unit", unit, ": carrier needs log model (skipped in this probe)"); continue
    kind = carrier_of[op]; a, _, _ = CAR[kind][0]()
    u = S.lift(unit, kind)
    print("  ", op, "unit", unit, "| op(unit,x)==x:", valid(op(u, a), a, []), "| op(x,unit)==x:", valid(op(a, u), a, []))
print("== DISTRIBUTIVE_OPS ==")
for add_op, mul_op in sorted(ops.DISTRIBUTIVE_OPS, key=str):
    if add_op in (ops.logaddexp, ops.sample): print("  ", (add_op, mul_op), ": log model (see p2b)"); continue
    kind = "bool" if add_op in (ops.or_, ops.and_) else ("nonneg" if mul_op is ops.mul and add_op in (ops.max, ops.min) else "real")
    (a, b, c), assume = CAR[kind][0](), CAR[kind][1]
    print("  ", (str(add_op), str(mul_op)), "on", kind, ":", valid(mul_op(a, add_op(b, c)), add_op(mul_op(a, b), mul_op(a, c)), assume))
    if kind == "nonneg":
        (a, b, c) = CAR["real"][0]()
        print("      (same law on all reals, outside the declared carrier):", valid(mul_op(a, add_op(b, c)), add_op(mul_op(a, b), mul_op(a, c)), [])[:60])
print("== BINARY_INVERSES / SAFE ==")
for op, inv in list(ops.BINARY_INVERSES.items()) + list(ops.SAFE_BINARY_INVERSES.items()):
    kind = carrier_of[op]; (a, b, _), _ = CAR[kind][0](), None
    assume = [b.e != 0] if op is ops.mul else []
    print("  ", str(op), "->", str(inv), ": inv(op(x,y),y)==x:", valid(inv(op(a, b), b), a, assume))
