from symint import *
from symint import _e
import symint
import funsor, funsor.terms as T
from funsor.interpretations import CallableInterpretation
from funsor.terms import Slice, Variable, Number

def sym_bint(size):
    return type("BintSym", (), {"size": size, "dtype": size, "shape": ()})
class _BintF:
    def __getitem__(self, size): return sym_bint(size)

@CallableInterpretation
def raw(cls, *args):
    # build the term with the REAL __init__, bypassing cons-hashing (which hashes its args)
    obj = object.__new__(cls)
    obj.__init__(*args)
    obj._ast_values = args
    return obj
raw.is_total = True

def run_slice_of_slice():
    a0, a1, a2, ad = [SymInt(z3.Int(n)) for n in ("s_start", "s_stop", "s_step", "s_dtype")]
    b0, b1, b2 = [SymInt(z3.Int(n)) for n in ("i_start", "i_stop", "i_step")]
    k = z3.Int("k")
    # documented preconditions of Slice(name, start, stop, step, dtype)
    for c in (a0.e >= 0, a1.e >= 0, a2.e >= 1, ad.e >= 0, b0.e >= 0, b1.e >= 0, b2.e >= 1,
              a2.e <= 4, b2.e <= 4):
        if not symint.fork(c): raise Abort()
    outer = Slice("i", a0, a1, a2, ad)          # real SliceMeta.__call__ + Slice.__init__
    osize = outer.inputs["i"].size
    inner = Slice("j", b0, b1, b2, osize)       # index into outer: dtype == outer size
    isize = inner.inputs["j"].size
    res = outer.eager_subs((("i", inner),))     # REAL code under test
    return dict(osize=osize, isize=isize, rsize=res.inputs["j"].size,
                r=(res.slice.start, res.slice.step), o=(outer.slice.start, outer.slice.step),
                i=(inner.slice.start, inner.slice.step))

old = T.Bint
T.Bint = _BintF()
t = time.time()
with raw:
    paths = explore(run_slice_of_slice)
T.Bint = old
print("paths", len(paths), "explore s", round(time.time()-t,2))
# property: result has as many points as the inner slice, and point k maps to outer(inner(k))
viol = None; q = 0; t = time.time()
k = z3.Int("k")
for pc, r, err in paths:
    if err is not None: print("assertion on path:", err); continue
    s = z3.Solver(); s.set("timeout", 20000); s.add(*pc)
    size_ok = _e(r["rsize"]) == _e(r["isize"])
    val_ok = z3.Implies(z3.And(k >= 0, k < _e(r["isize"])),
        _e(r["r"][0]) + _e(r["r"][1]) * k == _e(r["o"][0]) + _e(r["o"][1]) * (_e(r["i"][0]) + _e(r["i"][1]) * k))
    s.add(z3.Not(z3.And(size_ok, val_ok))); q += 1
    res = s.check()
    if res == z3.sat:
        m = s.model(); viol = {str(d): m[d] for d in m.decls()}; break
    elif res != z3.unsat: print("unknown")
print("queries", q, "solve s", round(time.time()-t,2), "counterexample:", viol)
if viol:
    g = lambda n: viol[n].as_long() if n in viol else 0
    o = Slice("i", g("s_start"), g("s_stop"), g("s_step"), g("s_dtype"))
    i = Slice("j", g("i_start"), g("i_stop"), g("i_step"), o.inputs["i"].size)
    r = o(i=i)
    print("REPLAY on real code: outer", o, "inner", i, "->", r, "inputs", dict(r.inputs), "expected size", i.inputs["j"].size)
