"""Probe for C18: compile_funsor / as_code / pickle / trace_function on z3-valued arrays (translation validation).
Throw-away; not framework code."""
import pickle, time
import numpy as np, z3
from collections import OrderedDict
exec(open(__file__.replace("p17.py", "p10.py")).read().split("# ---------------- independent semantics")[0])  # SymArray, sym
import funsor
from funsor import Tensor, Bint, Variable, ops, Real, Reals
from funsor.compiler import compile_funsor
from funsor.ops.tracer import trace_function
from funsor.interpretations import lazy, reflect

a, b, x = Variable("a", Reals[2, 2]), Variable("b", Reals[2]), Variable("x", Reals[2])
c = Tensor(sym("c", (2,)))
with lazy:
    expr = (a @ x - b) * c + (a @ x - b)          # shared sub-expression, non-commutative ops, a constant tensor
data = dict(a=sym("A", (2, 2)), b=sym("B", (2,)), x=sym("X", (2,)))
prog = compile_funsor(expr)
got = prog(**data)
A, Bv, X, C = (v.view(np.ndarray) for v in (data["a"], data["b"], data["x"], c.data))
orc = [(sum(A[i][k] * X[k] for k in range(2)) - Bv[i]) * C[i] + (sum(A[i][k] * X[k] for k in range(2)) - Bv[i]) for i in range(2)]
def decide(g, o):
    s = z3.Solver(); s.add(z3.Or(*[g.view(np.ndarray)[i] != o[i] for i in range(2)])); return s.check()
print("program ops:", len(prog.operations), "constants:", len(prog.constants), "inputs:", prog.inputs)
print("compiled vs oracle:", decide(got, orc))
print("interpretation vs oracle:", decide(expr(**data).data, orc))
p2 = pickle.loads(pickle.dumps(compile_funsor((a @ x - b) if False else expr.__class__ and expr)))  if False else None
with lazy:
    e2 = (a @ x - b) / (x + 2.0)
prog2 = compile_funsor(e2)
prog2b = pickle.loads(pickle.dumps(prog2))
g1, g2 = prog2(**data), prog2b(**data)
print("pickled program == program:", z3.Solver().check(z3.Or(*[g1.view(np.ndarray)[i] != g2.view(np.ndarray)[i] for i in range(2)])))
ns = {}; exec(prog2.as_code("f"), ns)
g3 = ns["f"](**data)
print("as_code == program:", z3.Solver().check(z3.Or(*[g1.view(np.ndarray)[i] != g3.view(np.ndarray)[i] for i in range(2)])))
for bad in (dict(a=data["a"], b=data["b"]), dict(data, zzz=data["x"])):
    try: prog2(**bad); print("NOT rejected", list(bad))
    except ValueError as e: print("rejected:", e)
def fn(a, b, x): return ops.add(ops.matmul(a, x), b)
tp = trace_function(fn, data)
g4 = tp(**data); o4 = [sum(A[i][k] * X[k] for k in range(2)) + Bv[i] for i in range(2)]
print("traced vs oracle:", decide(g4, o4))
