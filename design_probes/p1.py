import numpy as np, z3
from collections import OrderedDict
import funsor
from funsor import Tensor, Bint, Variable, ops
from funsor.terms import Number

# object array of z3 reals
def sym(name, shape):
    a = np.empty(shape, dtype=object)
    for idx in np.ndindex(*shape):
        a[idx] = z3.Real(name + "_" + "_".join(map(str, idx)))
    return a

x = Tensor(sym("x", (2, 3)), OrderedDict(i=Bint[2], j=Bint[3]))
y = Tensor(sym("y", (3, 2)), OrderedDict(j=Bint[3], k=Bint[2]))
print(type(x), x.inputs, x.output)
z = x * y
print(type(z), z.inputs, z.data.shape, z.data[0, 0, 0])
r = z.reduce(ops.add, "j")
print(type(r), r.inputs, r.data[0, 0])
# subs
s = x(i="k", j=1)
print(type(s), s.inputs, s.data)
idx = Tensor(np.array([2, 0]), OrderedDict(k=Bint[2]), 3)
s2 = x(j=idx)
print(s2.inputs, s2.data)
# einsum
try:
    e = np.einsum("ij,jk->ik", x.data, y.data)
    print("einsum ok", e[0, 0])
except Exception as ex:
    print("einsum fail", repr(ex))
# lazy then reinterpret
with funsor.interpretations.lazy:
    lz = (x * y).reduce(ops.add, "j")
print(type(lz))
ev = funsor.reinterpret(lz)
print(type(ev), ev.data[0, 0])
s = z3.Solver()
s.add(ev.data[0, 0] != r.data[0, 0])
print(s.check())
# optimizer
from funsor.optimizer import apply_optimizer
with funsor.interpretations.lazy:
    w = Tensor(sym("w", (2,)), OrderedDict(k=Bint[2]))
    lz2 = (x * y * w).reduce(ops.add, frozenset({"j", "k"}))
opt = apply_optimizer(lz2)
print(type(opt), opt.inputs)
naive = (x * y * w).reduce(ops.add, frozenset({"j", "k"}))
s = z3.Solver()
s.add(z3.Or(*[opt.data[i] != naive.data[i] for i in range(2)]))
print("opt vs naive:", s.check())
