import numpy as np, warnings
from collections import OrderedDict
import funsor
from funsor import Tensor, Bint, Variable, ops, Real, Reals
from funsor.terms import Number, Slice, Stack, Cat, Lambda
from funsor.interpretations import lazy, normalize, reflect
from funsor.optimizer import apply_optimizer
warnings.simplefilter("ignore")
rng = np.random.default_rng(0)
def T(names, sizes=dict(i=2, j=3, k=2, l=3)):
    return Tensor(rng.standard_normal(tuple(sizes[n] for n in names)), OrderedDict((n, Bint[sizes[n]]) for n in names))
def show(title, f):
    try:
        print(title, "->", f())
    except Exception as e:
        print(title, "-> EXC", type(e).__name__, str(e)[:120])

x = T("ij"); y = T("jk"); z = T("k")
# 1. rename onto an existing input
show("x(i='j') inputs", lambda: (dict(x(i="j").inputs), x(i="j").data.shape))
show("x(i='j',j='i') swap ok?", lambda: np.allclose(x(i="j", j="i").align(("i","j")).data, x.data.T))
# 2. reduce over a variable absent from arg
for op in [ops.add, ops.mul, ops.logaddexp, ops.max, ops.min]:
    show(f"z.reduce({op}, Variable k2:Bint[3] not in z)", lambda: (funsor.terms.Reduce(op, z, frozenset({Variable("q", Bint[3])})).data, "orig", z.data))
# 3. find_domain for .sum(axis)
v = Variable("v", Reals[2, 3])
show("lazy v.sum(0).output", lambda: v.sum(0).output)
show("lazy v.sum(1, keepdims) output", lambda: v.sum(1, True).output)
tt = Tensor(rng.standard_normal((2, 3)))
show("eager tensor.sum(0) declared vs data", lambda: (tt.sum(0).output, tt.sum(0).data.shape))
# 4. floordiv bound
a = Tensor(np.array([3]), OrderedDict(), 4)[0]; b = Tensor(np.array([1]), OrderedDict(), 3)[0]
show("Bint[4](3)//Bint[3](1)", lambda: ((a // b).output, (a // b).data))
# 5. UNITS
show("UNITS and/or", lambda: (ops.UNITS[ops.and_], ops.UNITS[ops.or_]))
# 6. normalize / optimizer with operand missing reduced var
with lazy:
    e = (x + z).reduce(ops.add, "k")          # x does not mention k
show("eager  (x+z).reduce(add,k)", lambda: (x + z).reduce(ops.add, "k").data[0])
show("oracle", lambda: (x.data * 2 + z.data.sum())[0])
show("optimizer", lambda: apply_optimizer(e).data[0])
with lazy:
    e2 = (x * y * z).reduce(ops.add, frozenset({"j", "k", "l"})) if False else (x * y).reduce(ops.add, "j") * z
show("normalize idempotent", lambda: (lambda n: funsor.reinterpret(n) is n)(normalize.interpret(type(e), *e._ast_values)))
# distribution over sums
with lazy:
    e3 = (x * (y + z)).reduce(ops.add, frozenset({"j", "k"}))
show("opt x*(y+z) reduce jk", lambda: apply_optimizer(e3).data)
show("oracle", lambda: np.einsum("ij,jk->i", x.data, y.data + z.data))
with lazy:
    e4 = (x * (y + 1.0)).reduce(ops.add, frozenset({"j", "k"}))
show("opt x*(y+1) reduce jk", lambda: apply_optimizer(e4).data)
show("oracle", lambda: np.einsum("ij,jk->i", x.data, y.data + 1.0))
with lazy:
    e5 = ((x.reduce(ops.add, "j")) * z).reduce(ops.add, "k")
show("opt (sum_j x) * z reduce k", lambda: apply_optimizer(e5).data)
show("oracle", lambda: x.data.sum(1) * z.data.sum())
# 7. Slice∘Slice, Cat of slices
show("Slice(i,0,21,4,22)(i=Slice(j,1,2,4,6))", lambda: dict(Slice("i",0,21,4,22)(i=Slice("j",1,2,4,6)).inputs))
w = T("l")
show("w(l=Slice('m',0,3,2,3)) then (m=Slice('n',0,1,1,2))", lambda: w(l=Slice("m",0,3,2,3))(m=Slice("n",0,1,1,2)).data)
c = Cat("l", (T("l"), T("l")))
show("Cat sliced", lambda: (c(l=Slice("m", 1, 6, 2, 6)).data, c.data[1:6:2]))
# 8. Stack/Lambda/getitem
st = Stack("s", (x, x + 1))
show("Stack(s)(s=1) == x+1", lambda: np.allclose(st(s=1).data, (x + 1).data))
show("Lambda getitem", lambda: np.allclose(Lambda(Variable("i", Bint[2]), x)[1].data, x(i=1).data))
