import numpy as np, z3, time, itertools
from collections import OrderedDict
import funsor
from funsor import Tensor, Bint, Variable, ops
from funsor.sum_product import sequential_sum_product, naive_sequential_sum_product, sum_product, mixed_sequential_sum_product
from funsor.adjoint import forward_backward
from funsor.optimizer import apply_optimizer

class SymArray(np.ndarray):
    def __array_ufunc__(self, ufunc, method, *inputs, out=None, **kwargs):
        raw = [x.view(np.ndarray) if isinstance(x, np.ndarray) else x for x in inputs]
        r = getattr(ufunc, method)(*raw, **kwargs)
        if isinstance(r, np.ndarray): return r.view(SymArray)
        a = np.empty((), dtype=object); a[()] = r
        return a.view(SymArray)
    def __array_function__(self, func, types, args, kwargs):
        def strip(x):
            if isinstance(x, SymArray): return x.view(np.ndarray)
            if isinstance(x, (list, tuple)): return type(x)(strip(y) for y in x)
            return x
        r = func(*strip(args), **{k: strip(v) for k, v in kwargs.items()})
        if isinstance(r, np.ndarray): return r.view(SymArray)
        if isinstance(r, z3.ExprRef):
            a = np.empty((), dtype=object); a[()] = r
            return a.view(SymArray)
        return r
def sym(name, shape):
    a = np.empty(shape, dtype=object)
    for idx in np.ndindex(*shape):
        a[idx] = z3.Real(name + "_" + "_".join(map(str, idx)))
    return a.view(SymArray)

def decide(pairs, timeout=60000):
    s = z3.Solver(); s.set("timeout", timeout)
    s.add(z3.Or(*[a != b for a, b in pairs]))
    t = time.time(); r = s.check(); return str(r), round(time.time() - t, 3)

# --- C10: sequential_sum_product vs explicit left fold ---------------------------------
for T_, S in [(3, 2), (5, 2), (6, 2), (8, 2), (5, 3), (7, 3), (12, 2)]:
    trans = Tensor(sym("t", (T_, S, S)), OrderedDict(time=Bint[T_], prev=Bint[S], curr=Bint[S]))
    t0 = time.time()
    got = sequential_sum_product(ops.add, ops.mul, trans, Variable("time", Bint[T_]), {"prev": "curr"})
    got = got.align(("prev", "curr"))
    # oracle: explicit fold of matrices
    M = [[ [trans.data[t, i, j] for j in range(S)] for i in range(S)] for t in range(T_)]
    acc = M[0]
    for t in range(1, T_):
        acc = [[sum(acc[i][k] * M[t][k][j] for k in range(S)) for j in range(S)] for i in range(S)]
    build = round(time.time() - t0, 2)
    pairs = [(got.data[i, j], acc[i][j]) for i in range(S) for j in range(S)]
    print("seq_sum_product T=%d S=%d build %.2fs ->" % (T_, S, build), decide(pairs))

# --- C09: plated sum_product vs brute force ---------------------------------------------
a = Tensor(sym("a", (2,)), OrderedDict(x=Bint[2]))
b = Tensor(sym("b", (2, 3, 2)), OrderedDict(x=Bint[2], i=Bint[3], y=Bint[2]))
c = Tensor(sym("c", (3, 2, 2)), OrderedDict(i=Bint[3], y=Bint[2], z=Bint[2]))
got = sum_product(ops.add, ops.mul, [a, b, c], frozenset("xyzi"), frozenset("i"))
orc = 0
for x in range(2):
    prod_i = 1
    for i in range(3):
        prod_i = prod_i * sum(b.data[x, i, y] * c.data[i, y, z] for y in range(2) for z in range(2))
    orc = orc + a.data[x] * prod_i
print("plated sum_product ->", type(got).__name__, decide([(got.data[()], orc)]))

# --- C11: adjoint vs derivative -----------------------------------------------------------
x = Tensor(sym("x", (2, 3)), OrderedDict(i=Bint[2], j=Bint[3]))
y = Tensor(sym("y", (3, 2)), OrderedDict(j=Bint[3], k=Bint[2]))
w = Tensor(sym("w", (2,)), OrderedDict(k=Bint[2]))
with funsor.interpretations.lazy:
    expr = (x * y * w).reduce(ops.add, frozenset({"i", "j", "k"}))
    expr = apply_optimizer(expr)
fwd, bwd = forward_backward(ops.add, ops.mul, expr)
print("fwd", type(fwd).__name__, "adjoint keys", [type(k).__name__ for k in bwd])
adj_y = bwd[y]
print("adj_y", type(adj_y).__name__, getattr(adj_y, "inputs", None))
adj_y = adj_y.align(("j", "k"))
pairs = []
for j in range(3):
    for k in range(2):
        o = sum(x.data[i, j] for i in range(2)) * w.data[k]
        pairs.append((adj_y.data[j, k], o))
print("adjoint(y) vs derivative ->", decide(pairs))
