"""Probe for C02: wrap `dispatch` of every DispatchedInterpretation at run time, record each rule firing
together with the reflected (lazy) term of the same (cls, args), and decide result == reflected with an
independent mini-evaluator `sem` over z3-valued cells.  Throw-away; not framework code."""
import itertools, time, collections
import numpy as np, z3
from collections import OrderedDict
import funsor
from funsor import Tensor, Bint, Variable, ops
from funsor.terms import Binary, Unary, Reduce, Number, Subs, Funsor, Stack, Cat, Lambda, Slice
from funsor.cnf import Contraction
from funsor.interpretations import DispatchedInterpretation, reflect, lazy, normalize
import funsor.interpretations as I, funsor.optimizer as O
from funsor.optimizer import apply_optimizer


class SymArray(np.ndarray):
    def __array_ufunc__(self, ufunc, method, *inputs, out=None, **kwargs):
        raw = [x.view(np.ndarray) if isinstance(x, np.ndarray) else x for x in inputs]
        r = getattr(ufunc, method)(*raw, **kwargs)
        if isinstance(r, np.ndarray):
            return r.view(SymArray)
        a = np.empty((), dtype=object); a[()] = r
        return a.view(SymArray)

    def __array_function__(self, func, types, args, kwargs):
        def strip(x):
            if isinstance(x, SymArray): return x.view(np.ndarray)
            if isinstance(x, (list, tuple)): return type(x)(strip(y) for y in x)
            return x
        r = func(*strip(args), **{k: strip(v) for k, v in kwargs.items()})
        if isinstance(r, np.ndarray): return r.view(SymArray)
        if isinstance(r, z3.ExprRef):
            a = np.empty((), dtype=object); a[()] = r
            return a.view(SymArray)
        return r


def _getitem(self, idx):
    r = np.ndarray.__getitem__(self, idx)
    if not isinstance(r, np.ndarray):   # numpy hands back the bare cell for a full integer index
        a = np.empty((), dtype=object); a[()] = r
        return a.view(SymArray)
    return r
SymArray.__getitem__ = _getitem


def sym(name, shape):
    a = np.empty(shape, dtype=object)
    for idx in np.ndindex(*shape):
        a[idx] = z3.Real(name + "_" + "_".join(map(str, idx)))
    return a.view(SymArray)


# ---------------- independent semantics of reflected terms (add/mul fragment only, for the probe) ----
BIN = {ops.add: lambda a, b: a + b, ops.mul: lambda a, b: a * b, ops.sub: lambda a, b: a - b}
UNIT = {ops.add: 0, ops.mul: 1}


def fold(op, xs):
    acc = None
    for x in xs:
        acc = x if acc is None else BIN[op](acc, x)
    return acc


def sem_app(cls, args, env):
    """meaning of the REDEX cls(*args) at a point, read off the constructor arguments only
    (the reflected term may not even be constructible: Contraction asserts normal-form invariants)."""
    if cls is Contraction:
        red_op, bin_op, reduced_vars = args[:3]
        terms = args[3] if len(args) == 4 and isinstance(args[3], tuple) else args[3:]
        names = [(v.name, v.output.size) for v in reduced_vars]
        outs = []
        for vals in itertools.product(*(range(n) for _, n in names)):
            e = dict(env); e.update({k: v for (k, _), v in zip(names, vals)})
            xs = [sem(t, e) for t in terms]
            outs.append(xs[0] if len(xs) == 1 else fold(bin_op, xs))
        return outs[0] if len(outs) == 1 else fold(red_op, outs)
    if cls is Binary:
        op, lhs, rhs = args
        return BIN[op](sem(lhs, env), sem(rhs, env))
    if cls is Reduce:
        op, arg, reduced_vars = args
        names = [(v.name, v.output.size) for v in reduced_vars]
        return fold(op, [sem(arg, {**env, **{k: v for (k, _), v in zip(names, vals)}})
                         for vals in itertools.product(*(range(n) for _, n in names))])
    if cls is Unary and args[0] is ops.neg:
        return -sem(args[1], env)
    if cls is Subs:
        arg, subs = args
        e = dict(env)
        for k, v in subs:
            if isinstance(v, Number): e[k] = int(v.data)
            elif isinstance(v, Variable): e[k] = env[v.name]
            else: raise NotImplementedError(type(v).__name__)
        return sem(arg, e)
    raise NotImplementedError(cls.__name__)


def app_inputs(cls, args):
    inputs = OrderedDict(); bound = set()
    def visit(a):
        if isinstance(a, Funsor): inputs.update(a.inputs)
        elif isinstance(a, (tuple, frozenset)):
            for b in a: visit(b)
    if cls in (Contraction, Reduce):
        rv = args[2]; bound = {v.name for v in rv}
        visit(args[3:] if cls is Contraction else args[1])
    elif cls is Subs:
        visit(args[0]); bound = {k for k, v in args[1]}
        for k, v in args[1]: visit(v)
    else:
        visit(args)
    return OrderedDict((k, d) for k, d in inputs.items() if k not in bound)


def sem(t, env):
    """value of funsor term t (scalar output) at integer point env: name -> int"""
    if isinstance(t, (Contraction, Binary, Reduce, Subs)) or (isinstance(t, Unary)):
        from funsor.typing import get_origin
        return sem_app(get_origin(type(t)), t._ast_values, env)
    if isinstance(t, Tensor):
        return t.data.view(np.ndarray)[tuple(env[k] for k in t.inputs)]
    if isinstance(t, Number):
        return z3.RealVal(str(t.data))
    if isinstance(t, Binary):
        return BIN[t.op](sem(t.lhs, env), sem(t.rhs, env))
    if isinstance(t, Unary) and t.op is ops.neg:
        return -sem(t.arg, env)
    if isinstance(t, Reduce):
        names = [(v.name, v.output.size) for v in t.reduced_vars]
        acc = None
        for vals in itertools.product(*(range(n) for _, n in names)):
            e = dict(env); e.update({k: v for (k, _), v in zip(names, vals)})
            x = sem(t.arg, e)
            acc = x if acc is None else BIN[t.op](acc, x)
        return acc
    if isinstance(t, Contraction):
        names = [(v.name, v.output.size) for v in t.reduced_vars]
        acc = None
        for vals in itertools.product(*(range(n) for _, n in names)):
            e = dict(env); e.update({k: v for (k, _), v in zip(names, vals)})
            p = None
            for term in t.terms:
                x = sem(term, e)
                p = x if p is None else BIN[t.bin_op](p, x)
            acc = p if acc is None else BIN[t.red_op](acc, p)
        return acc
    if isinstance(t, Subs):
        e = dict(env)
        for k, v in t.subs.items():
            if isinstance(v, Number): e[k] = int(v.data)
            elif isinstance(v, Variable): e[k] = env[v.name]
            else: raise NotImplementedError(type(v).__name__)
        return sem(t.arg, e)
    raise NotImplementedError(type(t).__name__)


# ---------------- the monitor ----------------------------------------------------------------------
FIRINGS = []
_busy = [False]


def wrap(interp):
    orig = interp.dispatch

    def dispatch(cls, *args):
        fn = orig(cls, *args)

        def rule(*a):
            result = fn(*a)
            if result is not None and not _busy[0] and isinstance(result, Funsor):
                _busy[0] = True
                FIRINGS.append((interp.__name__, getattr(fn, "__name__", str(fn)), result, (cls, a)))
                _busy[0] = False
            return result
        return rule
    interp.dispatch = dispatch


for name, obj in list(vars(I).items()) + list(vars(O).items()):
    if isinstance(obj, DispatchedInterpretation):
        wrap(obj)

# ---------------- drive some programs --------------------------------------------------------------
x = Tensor(sym("x", (2, 3)), OrderedDict(i=Bint[2], j=Bint[3]))
y = Tensor(sym("y", (3, 2)), OrderedDict(j=Bint[3], k=Bint[2]))
w = Tensor(sym("w", (2,)), OrderedDict(k=Bint[2]))
progs = [
    lambda: (x * y).reduce(ops.add, "j"),
    lambda: (x * y * w).reduce(ops.add, frozenset({"j", "k"})),
    lambda: (x + w).reduce(ops.add, "k"),                 # x does not mention k
    lambda: (x * (y + w)).reduce(ops.add, frozenset({"j", "k"})),
    lambda: x(i=1) - w(k=0),
    lambda: w.reduce(ops.add, frozenset({Variable("q", Bint[3])})),   # reduced var absent from arg
]
for p in progs:
    p()
    with lazy:
        e = p()
    apply_optimizer(e)
    with normalize:
        funsor.reinterpret(e)

print("recorded firings:", len(FIRINGS))
by_rule = collections.Counter((i, r) for i, r, _, _ in FIRINGS)
t0 = time.time(); decided = bad = skipped = 0
for interp, rule, result, reflected in FIRINGS:
    cls, a = reflected
    from funsor.typing import get_origin
    cls = get_origin(cls)
    rin = app_inputs(cls, a)
    inputs = OrderedDict(rin); inputs.update(result.inputs)
    if not set(result.inputs) <= set(rin):
        print("NEW INPUT introduced by", rule); bad += 1
    try:
        pairs = []
        for vals in itertools.product(*(range(d.size) for d in inputs.values())):
            env = dict(zip(inputs, vals))
            pairs.append((sem(result, env), sem_app(cls, a, env)))
    except NotImplementedError as e:
        skipped += 1; continue
    s = z3.Solver(); s.set("timeout", 10000); s.add(z3.Or(*[a != b for a, b in pairs]))
    r = s.check(); decided += 1
    if r != z3.unsat:
        bad += 1; print("UNSOUND?", interp, rule, r)
print("decided", decided, "skipped", skipped, "non-unsat", bad, "time", round(time.time() - t0, 2))
for k, v in sorted(by_rule.items()):
    print("  ", k, v)
