"""Probe for C12: the polynomial fragment of Gaussian algebra on z3-valued arrays.
Real code: Gaussian.__init__, eager_add_gaussian_gaussian/align_gaussian/BlockVector, _eager_subs_real (full and
partial), _eager_subs_int, _eager_subs_var, _eager_subs_affine (+ extract_affine), Gaussian.align,
eager_reduce(ops.add) plate fusion.  Oracle: dense quadratic form.  Throw-away; not framework code."""
import itertools, time
import numpy as np, z3
from collections import OrderedDict
exec(open(__file__.replace("p12.py", "p10.py")).read().split("# ---------------- independent semantics")[0])  # SymArray, sym
import funsor
from funsor import Tensor, Bint, Variable, ops, Real, Reals
from funsor.gaussian import Gaussian


def decide(pairs, timeout=60000):
    s = z3.Solver(); s.set("timeout", timeout)
    s.add(z3.Or(*[a != b for a, b in pairs]))
    t = time.time(); r = s.check(); return str(r), round(time.time() - t, 3)


def cell(t, *idx):
    return t.data.view(np.ndarray)[idx]


def quad(W, P, xs):
    """-1/2 || x P - w ||^2 with x a flat list of z3 terms, P (dim, rank), w (rank,)"""
    rank = len(W)
    v = [sum(xs[d] * P[d][r] for d in range(len(xs))) - W[r] for r in range(rank)]
    return -sum(t * t for t in v) / 2


def G(name, inputs, rank):
    ints = [d.size for d in inputs.values() if d.dtype != "real"]
    dim = sum(d.num_elements for d in inputs.values() if d.dtype == "real")
    return Gaussian(sym(name + "w", tuple(ints) + (rank,)), sym(name + "P", tuple(ints) + (dim, rank)), inputs)


def point(name, shape):
    return Tensor(sym(name, shape))


with Gaussian.set_compression_threshold(float("inf")):
    # 1. g1 + g2 with different input orders, evaluated at a symbolic point
    g1 = G("a", OrderedDict(i=Bint[2], x=Real, y=Reals[2]), 2)
    g2 = G("b", OrderedDict(y=Reals[2], z=Real, i=Bint[2]), 4)
    s = g1 + g2
    px, py, pz = point("px", ()), point("py", (2,)), point("pz", ())
    val = s(x=px, y=py, z=pz)
    print("sum:", type(s).__name__, dict(s.inputs), "->", type(val).__name__, dict(val.inputs))
    pairs = []
    X = px.data.view(np.ndarray)[()]; Y = list(py.data.view(np.ndarray)); Z = pz.data.view(np.ndarray)[()]
    for i in range(2):
        w1 = list(g1.white_vec.view(np.ndarray)[i]); P1 = g1.prec_sqrt.view(np.ndarray)[i]
        w2 = list(g2.white_vec.view(np.ndarray)[i]); P2 = g2.prec_sqrt.view(np.ndarray)[i]
        o = quad(w1, P1, [X] + Y) + quad(w2, P2, Y + [Z])
        pairs.append((cell(val.align(("i",)) if val.inputs else val, i), o))
    print("  g1+g2 at point vs dense:", decide(pairs))

    # 2. partial real substitution, then the rest
    part = g1(y=py)
    val2 = part(x=px)
    pairs = [(cell(val2, i), quad(list(g1.white_vec.view(np.ndarray)[i]), g1.prec_sqrt.view(np.ndarray)[i], [X] + Y)) for i in range(2)]
    print("  partial subs then rest:", type(part).__name__, decide(pairs))

    # 3. integer indexing, renaming, align
    g3 = g1(i=1, x="u").align(("y", "u"))
    val3 = g3(u=px, y=py)
    print("  int index + rename + align:", dict(g3.inputs), decide([(cell(val3), quad(list(g1.white_vec.view(np.ndarray)[1]), g1.prec_sqrt.view(np.ndarray)[1], [X] + Y))]))

    # 4. affine substitution  x := 2*u + v - 1
    u, v = Variable("u", Real), Variable("v", Real)
    g4 = g1(x=2 * u + v - 1)
    pu, pv = point("pu", ()), point("pv", ())
    val4 = g4(u=pu, v=pv, y=py)
    U, V = pu.data.view(np.ndarray)[()], pv.data.view(np.ndarray)[()]
    pairs = [(cell(val4, i), quad(list(g1.white_vec.view(np.ndarray)[i]), g1.prec_sqrt.view(np.ndarray)[i], [2 * U + V - 1] + Y)) for i in range(2)]
    print("  affine subs:", type(g4).__name__, dict(g4.inputs), decide(pairs))

    # 5. plate fusion: sum over i
    g5 = g1.reduce(ops.add, "i")
    val5 = g5(x=px, y=py)
    o = sum(quad(list(g1.white_vec.view(np.ndarray)[i]), g1.prec_sqrt.view(np.ndarray)[i], [X] + Y) for i in range(2))
    print("  plate fusion:", type(g5).__name__, decide([(cell(val5), o)]))

    # 6. mean parametrisation
    mean = sym("m", (2, 3)); P = sym("Q", (2, 3, 3))
    g6 = Gaussian(mean=mean, prec_sqrt=P, inputs=OrderedDict(i=Bint[2], x=Real, y=Reals[2]))
    val6 = g6(x=px, y=py)
    pairs = []
    for i in range(2):
        Pi = P.view(np.ndarray)[i]; mi = list(mean.view(np.ndarray)[i])
        d = [a - b for a, b in zip([X] + Y, mi)]
        v_ = [sum(d[k] * Pi[k][r] for k in range(3)) for r in range(3)]
        pairs.append((cell(val6, i), -sum(t * t for t in v_) / 2))
    print("  mean x prec_sqrt parametrisation:", decide(pairs))
