"""Probe for C14 (Delta part) and the int-index gather of C04: the REAL Delta.eager_subs / eager_reduce /
Integrate(Delta) / eager_add_delta_funsor on symbolic points and values; real Tensor.eager_subs with a
SYMBOLIC integer index tensor (If-chain gather).  Throw-away; not framework code."""
import itertools, time
import numpy as np, z3
from collections import OrderedDict
src = open(__file__.replace("p18.py", "p11.py")).read()
exec(src.split("import funsor, funsor.tensor as FT")[0])          # SV, SymArray, sym, MODEL, wrap
import funsor, funsor.ops.array as A
from funsor import Tensor, Bint, Variable, ops, Real
from funsor.delta import Delta
from funsor.integrate import Integrate

_mul = SV.__mul__
def mul(self, o):
    o = SV.lift(o)
    for a, b in ((self, o), (o, self)):
        if a.kind == "real" and a.islog and not b.islog:
            c = z3.simplify(b.asreal().e)
            if z3.is_rational_value(c) and c.denominator_as_long() == 1 and c.numerator_as_long() >= 0:
                n = c.numerator_as_long()            # log(p) * n = log(p**n); n == 0 needs p > 0 (else -inf*0 = NaN)
                DEFINED.append(a.e > 0)
                e = z3.RealVal(1)
                for _ in range(n): e = e * a.e
                return SV(e, "real", True)
    return _mul(self, o)
DEFINED = []
SV.__mul__ = SV.__rmul__ = mul
_lift = SV.lift
def lift(x):
    return _lift(x)
# adding a plain real 0 to a log-space value: log(p) + 0.0
_arith = SV._arith
def arith(self, o, f, logf=None):
    o = SV.lift(o)
    if self.kind == "real" or o.kind == "real":
        self, o = self.asreal(), o.asreal()
    if self.kind == "real" and o.kind == "real" and self.islog != o.islog:
        lg, ln = (self, o) if self.islog else (o, self)
        c = z3.simplify(ln.e)
        if z3.is_rational_value(c) and c.numerator_as_long() == 0:
            return lg if logf is not None else _arith(self, o, f, logf)
    return _arith(self, o, f, logf)
SV._arith = arith
# ---- extend the numpy model (these are the table rows the framework will need) -------------------
MODEL[np.equal] = lambda a, b: SV.lift(a)._cmp(b, lambda x, y: x == y)
_af = SymArray.__array_function__
def array_function(self, func, types, args, kwargs):
    strip = lambda x: x.view(np.ndarray) if isinstance(x, SymArray) else x
    if func is np.all:
        x = strip(args[0]); axis = args[1] if len(args) > 1 else kwargs.get("axis")
        f = np.frompyfunc(lambda a, b: SV(z3.And(SV.lift(a).e, SV.lift(b).e), "bool"), 2, 1)
        return wrap(f.reduce(x, axis=axis, keepdims=kwargs.get("keepdims", False)))
    if func is np.clip:
        x, lo, hi = (list(args) + [None, None])[:3]; assert hi is None and kwargs.get("a_max") is None
        return wrap(np.frompyfunc(sv_max, 2, 1)(strip(x), lo))
    return _af(self, func, types, args, kwargs)
SymArray.__array_function__ = array_function
def astype(self, dtype):
    f = np.frompyfunc(lambda c: SV(z3.If(c.e, z3.RealVal(1), z3.RealVal(0)), "real") if c.kind == "bool" else c, 1, 1)
    return wrap(f(self.view(np.ndarray)))
SymArray.astype = astype
_log = MODEL[np.log]
MODEL[np.log] = lambda a: a.log()
def gather(self, idx):
    """numpy advanced indexing where some index arrays hold symbolic ints: If-chain over the bounded domain"""
    if isinstance(idx, tuple) and any(isinstance(i, SymArray) and i.size and isinstance(i.view(np.ndarray).flat[0], SV) for i in idx):
        pos = [k for k, i in enumerate(idx) if isinstance(i, SymArray) and isinstance(i.view(np.ndarray).flat[0], SV)]
        base = self.view(np.ndarray); out = None
        sizes = [base.shape[k] for k in pos]
        for vals in itertools.product(*(range(n) for n in sizes)):
            conc = list(idx)
            for k, v in zip(pos, vals):
                conc[k] = np.full(np.shape(idx[k]), v, dtype=int)
            picked = np.ndarray.__getitem__(base, tuple(conc))
            cond = None
            for k, v in zip(pos, vals):
                c = np.frompyfunc(lambda s, v=v: s.e == v, 1, 1)(idx[k].view(np.ndarray))
                cond = c if cond is None else np.frompyfunc(z3.And, 2, 1)(cond, c)
            cond = np.broadcast_to(cond, np.shape(picked))
            sel = np.frompyfunc(lambda c, a, b: a if b is None else SV(z3.If(c, a.e, b.e), a.kind, a.islog), 3, 1)
            out = picked if out is None else sel(cond, picked, out)
        return wrap(np.asarray(out, dtype=object))
    r = np.ndarray.__getitem__(self, idx)
    return r if isinstance(r, np.ndarray) else wrap(r)
SymArray.__getitem__ = gather

class _Finfo:
    min = SV(z3.Real("FMIN_E"), "real", True); max = None
class NPX:
    def __getattr__(self, k): return getattr(np, k)
    def finfo(self, dt): return _Finfo() if dt == np.dtype(object) else np.finfo(dt)
    def clip(self, x, lo, hi):
        assert hi is None
        return wrap(np.frompyfunc(sv_max, 2, 1)(x.view(np.ndarray) if isinstance(x, np.ndarray) else x, lo))
A.np = NPX()
EPS = [z3.Real("FMIN_E") > 0]


def decide(pairs, assume=()):
    assume = list(assume) + EPS
    s = z3.Solver(); s.set("timeout", 20000); s.add(*assume); s.add(z3.Or(*[a != b for a, b in pairs]))
    t = time.time(); r = s.check(); return str(r), round(time.time() - t, 3)
cells = lambda t: t.data.view(np.ndarray)

# 1. symbolic integer index tensor into a real tensor:  x(j = idx[k])
x = Tensor(sym("x", (2, 3), kind="real"), OrderedDict(i=Bint[2], j=Bint[3]))
idx = Tensor(sym("n", (2,), kind="int"), OrderedDict(k=Bint[2]), 3)
dom = [z3.And(c.e >= 0, c.e < 3) for c in cells(idx)]
for c in cells(idx): c.e = z3.Int(str(c.e))           # re-sort the cells as z3 Ints
dom = [z3.And(c.e >= 0, c.e < 3) for c in cells(idx)]
y = x(j=idx)
pairs = []
for i in range(2):
    for k in range(2):
        o = cells(x)[i, 2].e
        for v in (1, 0): o = z3.If(cells(idx)[k].e == v, cells(x)[i, v].e, o)
        pairs.append((cells(y.align(("i", "k")))[i, k].e, o))
print("x(j=symbolic index tensor):", dict(y.inputs), decide(pairs, dom))

# 2. Delta at a batched point, evaluated at a SYMBOLIC integer value; log density symbolic (log carrier)
pt = Tensor(sym("p", (2,), kind="int"), OrderedDict(b=Bint[2]), 3)
for c in cells(pt): c.e = z3.Int(str(c.e))
ld = Tensor(sym("d", (2,), kind="real", islog=True), OrderedDict(b=Bint[2]))
val = Tensor(sym("v", (), kind="int"), OrderedDict(), 3)
cells(val)[()].e = z3.Int("v")
d = Delta("z", pt, ld)
got = d(z=val)
print("Delta(z=symbolic value):", type(got).__name__, dict(got.inputs))
pairs = []
for b in range(2):
    g = cells(got)[b]
    want = z3.If(cells(val)[()].e == cells(pt)[b].e, cells(ld)[b].e, z3.RealVal(0))      # log-space: p==0 is -inf
    assert g.islog, g
    pairs.append((g.e, want))
print("  value is ld if equal else -inf:", decide(pairs, [c.e >= 0 for c in cells(ld)]))

# 3. (Delta + f).reduce(logaddexp, z) == f(z=point) + ld
f = Tensor(sym("f", (3, 2), kind="real", islog=True), OrderedDict(z=Bint[3], b=Bint[2]))
cpt = Tensor(np.array([2, 0]), OrderedDict(b=Bint[2]), 3)          # concrete batched point
d2 = Delta("z", cpt, ld)
r = (d2 + f).reduce(ops.logaddexp, "z")
print("(Delta+f).reduce(logaddexp):", type(r).__name__, dict(r.inputs))
# property C14 speaks of a UNIT-MASS Delta: reducing over its variable evaluates f at the point (density not added)
pairs = [(cells(r)[b].e, cells(f)[[2, 0][b], b].e) for b in range(2)]
print("  == f(z=point):", decide(pairs, [c.e >= 0 for c in list(cells(f).ravel()) + list(cells(ld))] + DEFINED), "definedness conditions recorded:", len(DEFINED))
