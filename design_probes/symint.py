"""Probe: run the REAL Slice.eager_subs / Cat.eager_subs bytecode on symbolic ints.
- SymInt subclasses int (so isinstance(x, int) holds), all operators overloaded -> z3 Int terms
- bool(SymBool) forks: decisions are replayed (DFS over decision prefixes), feasibility by z3
- the function's globals are replaced by recording stubs for Slice/Number/Cat/Bint
"""
import types, z3, itertools, time

class Path:
    def __init__(self, prefix):
        self.prefix, self.taken, self.pc = list(prefix), [], []
ENG = None
class Abort(Exception): pass

def fork(cond):
    """decide a symbolic boolean on the current path"""
    p = ENG
    i = len(p.taken)
    if i < len(p.prefix):
        d = p.prefix[i]
    else:
        s = z3.Solver(); s.add(*p.pc); s.push(); s.add(cond)
        can_t = s.check() == z3.sat; s.pop(); s.add(z3.Not(cond))
        can_f = s.check() == z3.sat
        if can_t and can_f:
            d = True; p.todo.append(p.taken + [False])
        elif can_t: d = True
        elif can_f: d = False
        else: raise Abort()
    p.taken.append(d); p.pc.append(cond if d else z3.Not(cond))
    return d

def explore(fn):
    global ENG
    todo = [[]]; results = []
    while todo:
        prefix = todo.pop()
        ENG = Path(prefix); ENG.todo = todo
        try:
            r = fn()
            results.append((list(ENG.pc), r, None))
        except Abort:
            pass
        except AssertionError as e:
            results.append((list(ENG.pc), None, e))
    return results

class SymBool:
    def __init__(self, e): self.e = e
    def __bool__(self): return fork(self.e)

def _e(x):
    if isinstance(x, SymInt): return x.e
    if isinstance(x, bool): raise TypeError
    if isinstance(x, int): return z3.IntVal(int.__int__(x))
    raise TypeError(type(x))

def pydiv(a, b):  # python floor division for ints, any sign of b != 0
    return z3.If(b > 0, a / b, -((-a) / (-b)) if False else z3.If(b > 0, a / b, (0 - a) / (0 - b)))

class SymInt(int):
    def __new__(cls, e):
        o = int.__new__(cls, 424242)   # poison value: any leak into C code is caught by replay validation
        o.e = e
        return o
    def __add__(s, o): return SymInt(s.e + _e(o))
    __radd__ = __add__
    def __sub__(s, o): return SymInt(s.e - _e(o))
    def __rsub__(s, o): return SymInt(_e(o) - s.e)
    def __mul__(s, o): return SymInt(s.e * _e(o))
    __rmul__ = __mul__
    def __neg__(s): return SymInt(-s.e)
    def __floordiv__(s, o):
        b = _e(o)
        # z3 div is floor for positive divisor; require that on this path
        if not fork(b > 0): raise Abort()
        return SymInt(s.e / b)
    def __rfloordiv__(s, o):
        if not fork(s.e > 0): raise Abort()
        return SymInt(_e(o) / s.e)
    def __mod__(s, o):
        b = _e(o)
        if not fork(b > 0): raise Abort()
        return SymInt(s.e % b)
    def __lt__(s, o): return SymBool(s.e < _e(o))
    def __le__(s, o): return SymBool(s.e <= _e(o))
    def __gt__(s, o): return SymBool(s.e > _e(o))
    def __ge__(s, o): return SymBool(s.e >= _e(o))
    def __eq__(s, o):
        if not isinstance(o, int): return False      # e.g. dtype == "real"
        return SymBool(s.e == _e(o))
    def __ne__(s, o):
        if not isinstance(o, int): return True
        return SymBool(s.e != _e(o))
    def __hash__(s): raise TypeError("symbolic int hashed: stub the container")
    def __index__(s): raise TypeError("symbolic int realised")
    def __repr__(s): return f"SymInt({s.e})"

