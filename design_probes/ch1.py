from typing import Optional
from funsor.ops.builtin import parse_slice

def _ref_len(start: Optional[int], stop: Optional[int], step: int, size: int) -> int:
    # textbook: number of k>=0 with lo + k*step < hi after clipping (step>0)
    lo = 0 if start is None else (min(size, start) if start >= 0 else max(0, size + start))
    hi = size if stop is None else (min(size, stop) if stop >= 0 else max(0, size + stop))
    n = 0
    i = lo
    while i < hi:
        n += 1
        i += step
    return n

def check_getslice_len(start: Optional[int], stop: Optional[int], step: int, size: int) -> bool:
    """
    pre: 0 <= size <= 6 and 1 <= step <= 7
    pre: start is None or -8 <= start <= 8
    pre: stop is None or -8 <= stop <= 8
    post: _
    """
    a, b, c = parse_slice(slice(start, stop, step), size)
    got = max(0, (b - a + c - 1) // c)
    return got == len(range(size)[start:stop:step])

def check_slice_size(start: int, stop: int, step: int) -> bool:
    """
    Slice.__init__ size formula: max(0, (stop + step - 1 - start) // step)
    pre: 0 <= start <= stop <= 12 and 1 <= step <= 13
    post: _
    """
    size = max(0, (stop + step - 1 - start) // step)
    return size == len(range(start, stop, step))
