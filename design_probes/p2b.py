exec(open('p2.py').read().split("import funsor")[0])
import funsor, funsor.ops.array as A
from funsor import Tensor, Bint, ops
import types, time
class _Finfo:
    def __init__(self):
        self.min = SV(z3.Real("FMIN_E"), "log"); self.max = None
class NP:
    def __getattr__(self, k): return getattr(np, k)
    def finfo(self, dt):
        if dt == np.dtype(object): return _Finfo()
        return np.finfo(dt)
    def clip(self, x, lo, hi):
        assert hi is None
        f = np.frompyfunc(sv_max, 2, 1)
        return np.asarray(f(np.asarray(x,dtype=object).view(np.ndarray), lo), dtype=object).view(SymArray)
A.np = NP()
def base(*arrs):
    s = z3.Solver()
    for arr in arrs:
        for a in arr.ravel(): s.add(a.e >= 0)
    s.add(z3.Real("FMIN_E") > 0)
    return s
x = Tensor(sym("x", (2, 3), "log"), OrderedDict(i=Bint[2], j=Bint[3]))
y = Tensor(sym("y", (3,), "log"), OrderedDict(j=Bint[3]))
r = (x + y).reduce(ops.logaddexp, "j")
orc = sum(x.data[0, j].e * y.data[j].e for j in range(3))
s = base(x.data, y.data); s.add(r.data[0].e != orc)
t=time.time(); print("logsumexp vs oracle:", s.check(), round(time.time()-t,3))
w = ops.logaddexp(x, y)
s = base(x.data, y.data); s.add(w.data[0,0].e != x.data[0,0].e + y.data[0].e)
t=time.time(); print("logaddexp vs oracle:", s.check(), round(time.time()-t,3))
# Contraction logaddexp/add via numpy_log einsum backend
from funsor.cnf import Contraction
from funsor.terms import Variable
c = Contraction(ops.logaddexp, ops.add, frozenset({Variable("j", Bint[3])}), x, y)
print(type(c).__name__, c.inputs)
s = base(x.data, y.data); s.add(z3.Or(c.data[0].e != orc))
t=time.time(); print("contraction(log) vs oracle:", s.check(), round(time.time()-t,3))
# mutation: wrong formula should be sat
s = base(x.data, y.data); s.add(c.data[0].e != orc + 1)
print("sanity (should be sat):", s.check())
