"""Probe for C14: the REAL Tensor._sample (numpy branch) with logits in log space (p>=0, p==0 is -inf) and
np.random.rand replaced by a nondeterministic stub returning fresh symbolic reals in [0,1).
Checks, for EVERY draw and EVERY logits: index in range, unflattening consistent, support, mass.
Throw-away; not framework code."""
import numbers, time, itertools
import numpy as np, z3
from collections import OrderedDict


class SV:
    """kind: 'real' (value = log(p) if islog else e), 'int', 'bool'"""
    __array_priority__ = 1000

    def __init__(self, e, kind="real", islog=False):
        self.e, self.kind, self.islog = e, kind, islog

    def __repr__(self):
        return f"SV<{self.kind}{'/log' if self.islog else ''}:{self.e}>"

    @staticmethod
    def lift(x):
        if isinstance(x, SV): return x
        if isinstance(x, (bool, np.bool_)): return SV(z3.BoolVal(bool(x)), "bool")
        if isinstance(x, (int, np.integer)): return SV(z3.IntVal(int(x)), "int")
        if isinstance(x, numbers.Number):
            x = float(x)
            return SV(z3.RealVal(int(x)) if x == int(x) else z3.RealVal(repr(x)), "real")
        raise TypeError(type(x))

    def asint(self):
        if self.kind == "bool": return SV(z3.If(self.e, 1, 0), "int")
        return self

    def asreal(self):
        s = self.asint()
        if s.kind == "int": return SV(z3.ToReal(s.e), "real")
        return s

    def _arith(self, o, f, logf=None):
        o = SV.lift(o); s = self
        if s.kind == "real" or o.kind == "real":
            s, o = s.asreal(), o.asreal()
            if s.islog or o.islog:
                assert s.islog and o.islog and logf is not None, (s, o)
                return SV(logf(s.e, o.e), "real", True)
            return SV(f(s.e, o.e), "real")
        s, o = s.asint(), o.asint()
        return SV(f(s.e, o.e), "int")

    def __add__(self, o): return self._arith(o, lambda a, b: a + b, lambda a, b: a * b)
    def __radd__(self, o): return SV.lift(o)._arith(self, lambda a, b: a + b, lambda a, b: a * b)
    def __sub__(self, o): return self._arith(o, lambda a, b: a - b, lambda a, b: a / b)
    def __mul__(self, o): return self._arith(o, lambda a, b: a * b)
    __rmul__ = __mul__
    def __truediv__(self, o): return self.asreal()._arith(SV.lift(o).asreal(), lambda a, b: a / b)
    def __floordiv__(self, o):
        o = SV.lift(o); assert self.asint().kind == "int" and o.kind == "int"
        return SV(self.asint().e / o.e, "int")     # divisor is a concrete positive size here
    def __mod__(self, o):
        o = SV.lift(o); assert self.asint().kind == "int" and o.kind == "int"
        return SV(self.asint().e % o.e, "int")
    def exp(self):
        assert self.kind == "real" and self.islog
        return SV(self.e, "real")
    def log(self):
        assert self.kind == "real" and not self.islog
        return SV(self.e, "real", True)
    def _cmp(self, o, f):
        o = SV.lift(o); s = self
        if s.kind == "real" or o.kind == "real": s, o = s.asreal(), o.asreal()
        assert s.islog == o.islog
        return SV(f(s.e, o.e), "bool")
    def __lt__(self, o): return self._cmp(o, lambda a, b: a < b)
    def __ge__(self, o): return self._cmp(o, lambda a, b: a >= b)
    def __bool__(self): raise RuntimeError("fork needed")


def sv_max(a, b):
    a, b = SV.lift(a), SV.lift(b)
    assert a.kind == b.kind == "real" and a.islog == b.islog
    return SV(z3.If(a.e >= b.e, a.e, b.e), "real", a.islog)


MODEL = {np.maximum: sv_max, np.exp: lambda a: a.exp(), np.log: lambda a: a.log(),
         np.less: lambda a, b: SV.lift(a) < b, np.greater_equal: lambda a, b: SV.lift(a) >= b,
         np.isfinite: lambda a: SV(a.e > 0, "bool") if a.islog else SV(z3.BoolVal(True), "bool")}


def wrap(r):
    if isinstance(r, np.ndarray): return r.view(SymArray)
    a = np.empty((), dtype=object); a[()] = r
    return a.view(SymArray)


class SymArray(np.ndarray):
    def __array_ufunc__(self, ufunc, method, *inputs, out=None, **kwargs):
        raw = [x.view(np.ndarray) if isinstance(x, np.ndarray) else x for x in inputs]
        if ufunc in MODEL:
            f = np.frompyfunc(MODEL[ufunc], ufunc.nin, 1)
            return wrap(getattr(f, method)(*raw, **{k: v for k, v in kwargs.items() if k != "dtype"}))
        return wrap(getattr(ufunc, method)(*raw, **kwargs))

    def __array_function__(self, func, types, args, kwargs):
        def strip(x):
            if isinstance(x, SymArray): return x.view(np.ndarray)
            if isinstance(x, (list, tuple)): return type(x)(strip(y) for y in x)
            return x
        args, kwargs = strip(args), {k: strip(v) for k, v in kwargs.items()}
        if func is np.amax:
            f = np.frompyfunc(sv_max, 2, 1)
            return wrap(f.reduce(args[0], axis=args[1] if len(args) > 1 else kwargs.get("axis"), keepdims=kwargs.get("keepdims", False)))
        if func is np.where:
            f = np.frompyfunc(lambda c, a, b: SV(z3.If(c.e, SV.lift(a).asreal().e if not isinstance(a, float) or a != 0.0 else z3.RealVal(1), SV.lift(b).e), "real", True), 3, 1)
            return wrap(f(*args))
        r = func(*args, **kwargs)
        return wrap(r) if isinstance(r, (np.ndarray, SV)) else r

    def __getitem__(self, idx):
        r = np.ndarray.__getitem__(self, idx)
        return r if isinstance(r, np.ndarray) else wrap(r)


def sym(name, shape, **kw):
    a = np.empty(shape, dtype=object)
    for idx in np.ndindex(*shape):
        a[idx] = SV(z3.Real(name + "_" + "_".join(map(str, idx))), **kw)
    return a.view(SymArray)


import funsor, funsor.tensor as FT
from funsor import Tensor, Bint, ops
from funsor.delta import Delta

# --- environment stubs --------------------------------------------------------------------------
RNG = []
class _Random:
    def rand(self, *shape):
        r = sym(f"r{len(RNG)}", shape, kind="real"); RNG.append(r); return r
class NP:
    random = _Random()
    def __getattr__(self, k): return getattr(np, k)
FT.np = NP()                      # funsor.tensor looks up `np` as a module global
import funsor.ops.array as A
class NPA(NP):
    def finfo(self, dt): raise NotImplementedError
A.np = NPA()

for sizes, sampled, nsamp in [((3,), "a", ()), ((2, 3), "ab", ()), ((2, 3), "b", ()), ((2, 2, 2), "bc", (2,))]:
    RNG.clear()
    names = "abc"[: len(sizes)]
    x = Tensor(sym("l", sizes, kind="real", islog=True), OrderedDict((n, Bint[s]) for n, s in zip(names, sizes)))
    sample_inputs = OrderedDict(("p%d" % i, Bint[s]) for i, s in enumerate(nsamp))
    t0 = time.time()
    y = x.sample(frozenset(sampled), sample_inputs)
    build = time.time() - t0
    # y is a Contraction/Binary of Deltas and a normaliser Tensor
    terms = y.terms if hasattr(y, "terms") and not isinstance(y, Delta) else [y]
    deltas = {}; norm = None
    for t in terms:
        if isinstance(t, Delta):
            for name, (point, ld) in t.terms: deltas[name] = point
        elif isinstance(t, Tensor): norm = t
    assert set(deltas) == set(sampled), (deltas, type(y))
    assert set(y.inputs) == set(x.inputs) | set(sample_inputs), y.inputs
    base = z3.Solver(); base.set("timeout", 30000)
    P = x.data.view(np.ndarray)
    for c in P.ravel(): base.add(c.e >= 0)
    batch = [n for n in names if n not in sampled]
    for bidx in itertools.product(*(range(x.inputs[n].size) for n in batch)):      # positive mass per batch row
        row = [P[tuple(dict(zip(batch, bidx), **dict(zip(sampled, ev)))[n] for n in names)].e
               for ev in itertools.product(*(range(x.inputs[n].size) for n in sampled))]
        base.add(sum(row) > 0)
    for r in RNG:
        for c in r.view(np.ndarray).ravel(): base.add(c.e >= 0, c.e < 1)
    assert base.check() == z3.sat
    # obligations, per (particle, batch) cell
    results = {}
    pt0 = next(iter(deltas.values()))
    for idx in itertools.product(*(range(d.size) for d in pt0.inputs.values())):
        env = dict(zip(pt0.inputs, idx))
        drawn = {n: deltas[n].data.view(np.ndarray)[tuple(env[k] for k in deltas[n].inputs)].e for n in sampled}
        in_range = z3.And(*[z3.And(drawn[n] >= 0, drawn[n] < x.inputs[n].size) for n in sampled])
        # probability of the drawn point, by an If-chain over the (finite) event space
        prob = z3.RealVal(0)
        for ev in itertools.product(*(range(x.inputs[n].size) for n in sampled)):
            full = dict(env); full.update(zip(sampled, ev))
            cell = P[tuple(full[n] for n in names)].e
            prob = z3.If(z3.And(*[drawn[n] == v for n, v in zip(sampled, ev)]), cell, prob)
        for title, goal in [("in_range", in_range), ("support", prob > 0)]:
            s = z3.Solver(); s.set("timeout", 30000); s.add(base.assertions()); s.add(z3.Not(goal))
            r = s.check(); results.setdefault(title, []).append(str(r))
            if r == z3.sat and title not in results.get("_shown", []):
                m = s.model(); results.setdefault("_shown", []).append(title)
                print("   counterexample for", title, {str(d): m[d] for d in m.decls() if not str(d).startswith(("div", "mod"))})
    # mass: normaliser == logsumexp over sampled vars of x, per batch cell
    mass = []
    for bidx in itertools.product(*(range(x.inputs[n].size) for n in norm.inputs)):
        env = dict(zip(norm.inputs, bidx))
        got = norm.data.view(np.ndarray)[bidx].e
        want = sum(P[tuple(dict(env, **dict(zip(sampled, ev)))[n] for n in names)].e
                   for ev in itertools.product(*(range(x.inputs[n].size) for n in sampled)))
        s = z3.Solver(); s.set("timeout", 30000); s.add(base.assertions()); s.add(got != want)
        mass.append(str(s.check()))
    print(sizes, "sample", sampled, "particles", nsamp, "build %.2fs" % build,
          {k: (v.count("unsat"), len(v)) for k, v in results.items() if k != "_shown"}, "mass", (mass.count("unsat"), len(mass)))
