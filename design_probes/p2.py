import numpy as np, z3, math, numbers
from collections import OrderedDict

# --- minimal symbolic scalar -------------------------------------------------
class SV:
    """symbolic scalar: kind in {'lin','log','bool'}; e is z3 expr.
    'log' kind: value = log(e) with e >= 0 (e == 0 <-> -inf)."""
    __array_priority__ = 1000
    def __init__(self, e, kind="lin"):
        self.e, self.kind = e, kind
    def __repr__(self):
        return f"SV<{self.kind}:{self.e}>"
    # helpers
    @staticmethod
    def lift(x):
        if isinstance(x, SV):
            return x
        if isinstance(x, (bool, np.bool_)):
            return SV(z3.BoolVal(bool(x)), "bool")
        if isinstance(x, numbers.Number):
            x = float(x)
            if x == -math.inf:
                return SV(z3.RealVal(0), "log")
            if x == int(x):
                return SV(z3.RealVal(int(x)), "lin")
            return SV(z3.RealVal(repr(x)), "lin")
        raise TypeError(type(x))
    def aslin(self):
        if self.kind == "bool":
            return SV(z3.If(self.e, z3.RealVal(1), z3.RealVal(0)), "lin")
        return self
    def __add__(self, o):
        o = SV.lift(o); s = self.aslin(); o = o.aslin()
        if s.kind == "log" and o.kind == "log":
            return SV(s.e * o.e, "log")
        if s.kind == "lin" and o.kind == "lin":
            return SV(s.e + o.e, "lin")
        lg, ln = (s, o) if s.kind == "log" else (o, s)
        if z3.is_rational_value(z3.simplify(ln.e)) and z3.simplify(ln.e).as_fraction() == 0:
            return lg
        return SV(lg.e * EXP(ln.e), "log")
    __radd__ = __add__
    def __neg__(self):
        s = self.aslin()
        if s.kind == "log":
            return SV(1 / s.e, "log")  # caller must ensure e>0
        return SV(-s.e, "lin")
    def __sub__(self, o):
        return self + (-SV.lift(o))
    def __rsub__(self, o):
        return SV.lift(o) + (-self)
    def __mul__(self, o):
        o = SV.lift(o).aslin(); s = self.aslin()
        assert s.kind == "lin" and o.kind == "lin", (s, o)
        return SV(s.e * o.e, "lin")
    __rmul__ = __mul__
    def __truediv__(self, o):
        o = SV.lift(o).aslin(); s = self.aslin()
        assert s.kind == "lin" and o.kind == "lin"
        return SV(s.e / o.e, "lin")
    def exp(self):
        s = self.aslin()
        if s.kind == "log":
            return SV(s.e, "lin")
        return SV(EXP(s.e), "lin")
    def log(self):
        s = self.aslin()
        assert s.kind == "lin"
        return SV(s.e, "log")
    def _cmp(self, o, f):
        o = SV.lift(o).aslin(); s = self.aslin()
        if s.kind != o.kind:
            raise TypeError("mixed compare")
        return SV(f(s.e, o.e), "bool")
    def __ge__(self, o): return self._cmp(o, lambda a, b: a >= b)
    def __gt__(self, o): return self._cmp(o, lambda a, b: a > b)
    def __le__(self, o): return self._cmp(o, lambda a, b: a <= b)
    def __lt__(self, o): return self._cmp(o, lambda a, b: a < b)
    def __bool__(self):
        raise RuntimeError("fork needed on " + repr(self))

EXP = z3.Function("EXP", z3.RealSort(), z3.RealSort())

def sv_max(a, b):
    a, b = SV.lift(a).aslin(), SV.lift(b).aslin()
    assert a.kind == b.kind
    return SV(z3.If(a.e >= b.e, a.e, b.e), a.kind)

def sv_where(c, a, b):
    c, a, b = SV.lift(c), SV.lift(a).aslin(), SV.lift(b).aslin()
    if a.kind != b.kind:
        # promote lin constant 0.0 into log kind: log-space 0.0 == log(1)
        def tolog(x):
            assert x.kind == "lin"
            return SV(EXP(x.e), "log") if not z3.is_rational_value(z3.simplify(x.e)) else SV(z3.RealVal(1) if z3.simplify(x.e).as_fraction() == 0 else EXP(x.e), "log")
        a = a if a.kind == "log" else tolog(a)
        b = b if b.kind == "log" else tolog(b)
    return SV(z3.If(c.e, a.e, b.e), a.kind)

def sv_isfinite(a):
    a = SV.lift(a).aslin()
    if a.kind == "log":
        return SV(a.e > 0, "bool")
    return SV(z3.BoolVal(True), "bool")

class SymArray(np.ndarray):
    def __array_ufunc__(self, ufunc, method, *inputs, out=None, **kwargs):
        raw = [np.asarray(x, dtype=object) if isinstance(x, np.ndarray) else x for x in inputs]
        raw = [x.view(np.ndarray) if isinstance(x, np.ndarray) else x for x in raw]
        table = {np.maximum: sv_max, np.isfinite: sv_isfinite,
                 np.exp: lambda a: SV.lift(a).exp(), np.log: lambda a: SV.lift(a).log()}
        if ufunc in table and method == "__call__":
            f = np.frompyfunc(table[ufunc], len(raw), 1)
            return np.asarray(f(*raw), dtype=object).view(SymArray)
        if ufunc is np.maximum and method == "reduce":
            f = np.frompyfunc(sv_max, 2, 1)
            r = f.reduce(raw[0], **kwargs)
            return np.asarray(r, dtype=object).view(SymArray)
        r = getattr(ufunc, method)(*raw, **kwargs)
        if isinstance(r, np.ndarray):
            r = r.view(SymArray)
        elif not isinstance(r, tuple):
            r = np.asarray(r, dtype=object).view(SymArray)
        return r
    def __array_function__(self, func, types, args, kwargs):
        if func is np.where:
            c, a, b = args
            f = np.frompyfunc(sv_where, 3, 1)
            return np.asarray(f(*[np.asarray(x, dtype=object) if isinstance(x, np.ndarray) else x for x in args]), dtype=object).view(SymArray)
        return super().__array_function__(func, types, args, kwargs)

def sym(name, shape, kind="lin"):
    a = np.empty(shape, dtype=object)
    for idx in np.ndindex(*shape):
        a[idx] = SV(z3.Real(name + "_" + "_".join(map(str, idx))), kind)
    return a.view(SymArray)

import funsor
from funsor import Tensor, Bint, ops

x = Tensor(sym("x", (2, 3), "log"), OrderedDict(i=Bint[2], j=Bint[3]))
y = Tensor(sym("y", (3,), "log"), OrderedDict(j=Bint[3]))
print(type(x.data))
z = (x + y)
print(type(z.data), z.data[0, 0])
r = z.reduce(ops.logaddexp, "j")
print(type(r), r.inputs, r.data.shape)
print(r.data[0])
# oracle: LogOf(sum_j x_ij * y_j)
orc = sum(x.data[0, j].e * y.data[j].e for j in range(3))
s = z3.Solver()
for a in list(x.data.ravel()) + list(y.data.ravel()):
    s.add(a.e >= 0)
s.add(z3.ForAll([z3.Real('t')], EXP(z3.Real('t')) > 0))
s.add(r.data[0].e != orc)
import time; t=time.time()
print("logsumexp vs oracle:", s.check(), time.time()-t)
if str(s.check()) == 'sat': print(s.model())
# binary logaddexp op on tensors
w = ops.logaddexp(x, y)
print(type(w), w.data[0,0])
s = z3.Solver()
for a in list(x.data.ravel()) + list(y.data.ravel()):
    s.add(a.e >= 0)
s.add(z3.ForAll([z3.Real('t')], EXP(z3.Real('t')) > 0))
s.add(w.data[0,0].e != x.data[0,0].e + y.data[0].e)
t=time.time(); print("logaddexp vs oracle:", s.check(), time.time()-t)
