import z3, time, itertools
def mat(name, r, c): return [[z3.Real(f"{name}{i}{j}") for j in range(c)] for i in range(r)]
def mm(A, B): return [[sum(A[i][k] * B[k][j] for k in range(len(B))) for j in range(len(B[0]))] for i in range(len(A))]
def tr(A): return [list(r) for r in zip(*A)]
def run(dim_a, dim_b, rank, timeout=120000):
    Pa, Pb = mat("a", dim_a, rank), mat("b", dim_b, rank)
    w = [[z3.Real(f"w{j}") for j in range(rank)]]
    xa = [[z3.Real(f"x{i}") for i in range(dim_a)]]
    M = mm(Pb, tr(Pb))
    cons = []
    # explicit Cholesky with sqrt symbols
    L = [[0] * dim_b for _ in range(dim_b)]
    for i in range(dim_b):
        for j in range(i + 1):
            sm = M[i][j] - sum(L[i][k] * L[j][k] for k in range(j))
            if i == j:
                s = z3.Real(f"s{i}"); cons += [s > 0, s * s == sm]; L[i][j] = s
            else:
                L[i][j] = sm / L[j][j]
    # Y = inv(L) @ Pb by forward substitution
    Y = [[None] * rank for _ in range(dim_b)]
    for c in range(rank):
        for i in range(dim_b):
            Y[i][c] = (Pb[i][c] - sum(L[i][k] * Y[k][c] for k in range(i))) / L[i][i]
    proj = mm(tr(Y), Y)
    Pa_new = [[Pa[i][j] - mm(Pa, proj)[i][j] for j in range(rank)] for i in range(dim_a)]
    w_new = [[w[0][j] - mm(w, proj)[0][j] for j in range(rank)]]
    v = [[mm(xa, Pa_new)[0][j] - w_new[0][j] for j in range(rank)]]
    impl_lin = sum(t * t for t in v[0])
    # oracle: C - B' M^-1 B with M^-1 via fresh inverse W constrained M W = I
    u = [[mm(xa, Pa)[0][j] - w[0][j] for j in range(rank)]]
    C = sum(t * t for t in u[0])
    B = mm(Pb, tr(u))   # dim_b x 1
    W = mat("W", dim_b, dim_b)
    MW = mm(M, W)
    for i in range(dim_b):
        for j in range(dim_b):
            cons.append(MW[i][j] == (1 if i == j else 0))
    orc_lin = C - mm(mm(tr(B), W), B)[0][0]
    s = z3.Solver(); s.set("timeout", timeout); s.add(*cons); s.add(impl_lin != orc_lin)
    t = time.time(); r = s.check(); return str(r), round(time.time() - t, 2)
for cfg in [(1, 1, 2), (1, 1, 3), (2, 1, 3), (1, 2, 2), (1, 2, 3), (2, 2, 4)]:
    print(cfg, run(*cfg), flush=True)
