import z3, time, sys
def mat(name, r, c): return [[z3.Real(f"{name}{i}{j}") for j in range(c)] for i in range(r)]
def mm(A, B): return [[sum(A[i][k] * B[k][j] for k in range(len(B))) for j in range(len(B[0]))] for i in range(len(A))]
def tr(A): return [list(r) for r in zip(*A)]
def build(dim_a, dim_b, rank):
    Pa, Pb = mat("a", dim_a, rank), mat("b", dim_b, rank)
    w = [[z3.Real(f"w{j}") for j in range(rank)]]
    xa = [[z3.Real(f"x{i}") for i in range(dim_a)]]
    M = mm(Pb, tr(Pb)); cons = []
    L = [[(z3.Real(f"L{i}{j}") if j <= i else z3.RealVal(0)) for j in range(dim_b)] for i in range(dim_b)]
    LL = mm(L, tr(L))
    for i in range(dim_b):
        cons.append(L[i][i] > 0)
        for j in range(i + 1): cons.append(LL[i][j] == M[i][j])
    Y = mat("Y", dim_b, rank); LY = mm(L, Y)
    for i in range(dim_b):
        for c in range(rank): cons.append(LY[i][c] == Pb[i][c])
    proj = mm(tr(Y), Y)
    Pa_new = [[Pa[i][j] - mm(Pa, proj)[i][j] for j in range(rank)] for i in range(dim_a)]
    w_new = [[w[0][j] - mm(w, proj)[0][j] for j in range(rank)]]
    v = [[mm(xa, Pa_new)[0][j] - w_new[0][j] for j in range(rank)]]
    impl_lin = sum(t * t for t in v[0])
    u = [[mm(xa, Pa)[0][j] - w[0][j] for j in range(rank)]]
    C = sum(t * t for t in u[0]); B = mm(Pb, tr(u))
    W = mat("W", dim_b, dim_b); MW = mm(M, W)
    for i in range(dim_b):
        for j in range(dim_b): cons.append(MW[i][j] == (1 if i == j else 0))
    orc_lin = C - mm(mm(tr(B), W), B)[0][0]
    return cons, impl_lin != orc_lin
for cfg in [(1, 1, 2), (1, 1, 3), (1, 2, 2)]:
    cons, goal = build(*cfg)
    s = z3.Solver(); s.set("timeout", 60000); s.add(*cons); s.add(goal)
    open(f"q_{cfg[0]}{cfg[1]}{cfg[2]}.smt2", "w").write("(set-logic QF_NRA)\n" + s.to_smt2())
    t = time.time(); r = s.check(); print("z3 contract-form", cfg, r, round(time.time() - t, 2), flush=True)
