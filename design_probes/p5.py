import z3, time, numpy as np
F = z3.Float64(); rm = z3.RNE()
x, y = z3.FP("x", F), z3.FP("y", F)
MAX = z3.FPVal(np.finfo(np.float64).max, F)
def fmin(a, b):  # np.clip(a, None, b) == minimum(a,b) (NaN propagating ignored: inputs non-NaN)
    return z3.If(z3.fpLEQ(a, b), a, b)
one = z3.FPVal(1.0, F)
safediv = z3.fpMul(rm, x, fmin(z3.fpDiv(rm, one, y), MAX))
safesub = z3.fpAdd(rm, x, fmin(z3.fpNeg(y), MAX))
for name, e, dom in [
    ("safesub: x,y in [-inf,+inf)", safesub, [z3.Not(z3.fpIsNaN(x)), z3.Not(z3.fpIsNaN(y)), z3.Not(z3.And(z3.fpIsInf(x), z3.fpIsPositive(x))), z3.Not(z3.And(z3.fpIsInf(y), z3.fpIsPositive(y)))]),
    ("safesub: any non-NaN", safesub, [z3.Not(z3.fpIsNaN(x)), z3.Not(z3.fpIsNaN(y))]),
    ("safediv: finite x, y>=0 (incl. +0)", safediv, [z3.Not(z3.fpIsNaN(x)), z3.Not(z3.fpIsInf(x)), z3.Not(z3.fpIsNaN(y)), z3.fpIsPositive(y)]),
    ("safediv: any non-NaN", safediv, [z3.Not(z3.fpIsNaN(x)), z3.Not(z3.fpIsNaN(y))]),
]:
    s = z3.Solver(); s.set("timeout", 120000); s.add(*dom); s.add(z3.fpIsNaN(e))
    t = time.time(); r = s.check()
    print(name, "->", r, round(time.time()-t, 2), (s.model() if r == z3.sat else ""))
