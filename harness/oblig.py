"""Generic obligation harness: an obligation is a function `ob(mk)` that runs real funsor code on values obtained
from the factory `mk` and returns a list of (got, expected) pairs (cells / arrays / funsor Tensors).
`decide` runs it on symbolic values (all paths), asks z3 for validity and replays any model through the SAME
function with a concrete factory."""
import math
import time
import traceback
from collections import OrderedDict

import numpy as np
import z3

from symx import engine
from symx.engine import Unsupported
from symx.sv import SV, sv_eq_formula, sv_eval
from symx.symarray import SymArray, as_obj, concretize, install, sym_array, sym_scalar
from lang import cellops as C


class Decline(Exception):
    """the real code declined (raised a documented error); allowed"""


class Sym:
    symbolic = True

    def __init__(self):
        self.made = OrderedDict()

    def scalar(self, name, carrier="real"):
        v = sym_scalar(name, carrier)
        self.made[name] = ("scalar", carrier, v)
        return v

    def array(self, name, shape, carrier="real"):
        a = sym_array(name, tuple(shape), carrier)
        self.made[name] = ("array", carrier, a)
        return a

    def int(self, name, lo=None, hi=None):
        from symx.symint import sym_int
        v = sym_int(name, lo, hi)
        self.made[name] = ("int", None, v)
        return v

    def assume(self, cond_sv):
        """restrict the carrier by a boolean SV / SymBool / z3 Bool"""
        from symx.symint import SymBool
        if isinstance(cond_sv, SymBool):
            cond_sv = cond_sv.e
        engine.assume(cond_sv.l if isinstance(cond_sv, SV) else cond_sv)
        return True


class Conc:
    symbolic = False

    def __init__(self, values):
        self.values = values
        self.ok = True

    def scalar(self, name, carrier="real"):
        v = self.values[name]
        if carrier == "bool":
            return bool(v)
        if isinstance(carrier, tuple):
            return int(v)
        return float(v)

    def array(self, name, shape, carrier="real"):
        return self.values[name]

    def int(self, name, lo=None, hi=None):
        return int(self.values[name])

    def assume(self, cond):
        if not bool(cond):
            self.ok = False
        return bool(cond)


def _cells(x):
    """flatten a value (SV / number / ndarray / funsor Tensor / Number) to a list of cells"""
    try:
        from funsor.tensor import Tensor
        from funsor.terms import Number
        if isinstance(x, Tensor):
            x = x.data
        elif isinstance(x, Number):
            x = x.data
    except ImportError:
        pass
    if isinstance(x, np.ndarray):
        return list(as_obj(x).ravel()), tuple(x.shape)
    from symx.symint import SymBool, SymInt
    if isinstance(x, SymInt):
        return [SV("int", x.e)], ()
    if isinstance(x, SymBool):
        return [SV("bool", x.e)], ()
    if isinstance(x, (list, tuple)):
        out = []
        for y in x:
            out += _cells(y)[0]
        return out, ("flat", len(out))
    return [x], ()


def _shape_ok(g, gs, e, es):
    if gs == es or len(g) == len(e) == 1:
        return True
    if (gs and gs[0] == "flat") or (es and es[0] == "flat"):
        return len(g) == len(e)
    return False


def _values_from_model(sym, model):
    vals = {}
    for name, (kind, carrier, v) in sym.made.items():
        if kind == "scalar":
            vals[name] = sv_eval(v, model)
        elif kind == "int":
            vals[name] = model.eval(v.e, model_completion=True).as_long()
        else:
            dt = bool if carrier == "bool" else np.int64 if isinstance(carrier, tuple) else np.float64
            vals[name] = concretize(v, model, dt)
    return vals


def _nice(hyps, goal, sym, timeout_ms):
    cons = []
    for name, (kind, carrier, v) in sym.made.items():
        if kind == "int":
            continue
        cs = [v] if kind == "scalar" else list(as_obj(v).ravel())
        for c in cs:
            if c.k == "real":
                var = c.p if c.p is not None else c.l
                cons.append(z3.Or(*[var == k for k in range(-3, 5)]))
    if not cons:
        return None
    s = z3.Solver()
    engine._budget(s, min(timeout_ms, 8000))
    s.add(*hyps)
    s.add(z3.Not(goal))
    s.add(*cons)
    return s.model() if s.check() == z3.sat else None


def decide(label, ob, timeout_ms=20000, twin=False, max_paths=64, prove_defined=False, known=()):
    install()
    t0 = time.time()
    out = dict(status="ok", label=label, detail="", paths=0, cells=0, nontrivial=False, solver_s=0.0, twin=None,
               obligations=0, discharged=0)
    holder = {}

    def setup(c):
        holder["sym"] = c.notes_sym = Sym()

    def body():
        return ob(holder["sym"])

    try:
        paths = engine.explore(body, max_paths=max_paths, setup=setup)
    except engine.PathCapExceeded:
        out.update(status="inconclusive", detail="path cap exceeded")
        return out
    out["paths"] = len(paths)
    n_declined = 0
    for pr in paths:
        c = pr.ctx
        engine.CUR = c
        if pr.exc is not None:
            if isinstance(pr.exc, Unsupported):
                out.update(status="unsupported", detail=str(pr.exc)[:200])
                return out
            if isinstance(pr.exc, Decline):
                n_declined += 1
                continue
            out.update(status="gap", detail="exception %s: %s" % (type(pr.exc).__name__, str(pr.exc)[:300]),
                       tb="".join(traceback.format_exception(type(pr.exc), pr.exc, pr.exc.__traceback__))[-1800:])
            return out
        pairs = pr.value
        conj = []
        try:
            for got, exp in pairs:
                if isinstance(got, z3.BoolRef):     # a raw formula that must hold
                    conj.append(got)
                    continue
                g, gs = _cells(got)
                e, es = _cells(exp)
                if not _shape_ok(g, gs, e, es):
                    out.update(status="violation", kind="shape", detail="shape %s vs expected %s" % (gs, es))
                    return out
                for a, b in zip(g, e):
                    conj.append(sv_eq_formula(a, b))
        except Unsupported as e:
            out.update(status="unsupported", detail="comparison: " + str(e)[:200])
            return out
        out["cells"] += len(conj)
        conj = conj + c.must_prove()
        goal = z3.And(*conj) if conj else z3.BoolVal(True)
        if not z3.is_true(z3.simplify(goal)):
            out["nontrivial"] = True
        hyps = c.hyps(with_defined=not prove_defined)
        if prove_defined and c.defined:
            goal = z3.And(goal, *[d for d, _ in c.defined])
        out["obligations"] += 1
        verdict, model, dt = engine.check_valid(hyps, goal, timeout_ms)
        out["solver_s"] += dt
        if verdict == "unknown":
            out.update(status="inconclusive", detail="solver unknown/timeout")
            return out
        if verdict == "sat":
            sym = c.notes_sym
            if known:
                # two queries per listed finding: (not prop & pred) -> the finding is (still) there;
                # (not prop & not any pred) -> a DIFFERENT violation of the same property
                preds, sat_kids = [], []
                for kid, pred_fn in known:
                    try:
                        pz = pred_fn(sym)
                    except Exception:
                        continue
                    preds.append(pz)
                    v1, m1, dt1 = engine.check_valid(hyps + [pz], goal, timeout_ms)
                    out["solver_s"] += dt1
                    if v1 == "sat":
                        sat_kids.append((kid, pz, m1))
                if preds:
                    outside = z3.Not(z3.Or(*preds))
                    v2, m2, dt2 = engine.check_valid(hyps + [outside], goal, timeout_ms)
                    out["solver_s"] += dt2
                    if v2 == "sat":
                        rep2 = _replays(ob, sym, hyps + [outside], goal, m2, timeout_ms)
                        if rep2 is not None:
                            out.update(status="violation", kind="value", detail=rep2["summary"], replay=rep2)
                            return out
                    if v2 == "unknown":
                        out.update(status="inconclusive", detail="solver unknown outside the known finding")
                        return out
                    # every (reproducible) counterexample lies inside a listed finding's region
                    reproduced = None
                    for kid, pz, m1 in sat_kids:
                        if _replays(ob, sym, hyps + [pz], goal, m1, timeout_ms) is not None:
                            out.setdefault("known_present", []).append(kid)
                            reproduced = True
                    if not reproduced and _replays(ob, sym, hyps, goal, model, timeout_ms) is not None:
                        # the first model reproduces; it lies inside a listed region (v2 is not a reproduced sat):
                        # attribute it to the findings whose predicate it satisfies (the per-finding query may
                        # have timed out), else to every listed finding of this harness
                        inside = []
                        for (kid, _), pz in zip(known, preds):
                            try:
                                if z3.is_true(model.eval(pz, model_completion=True)):
                                    inside.append(kid)
                            except Exception:
                                pass
                        out.setdefault("known_present", []).extend(inside or [k for k, _, _ in sat_kids] or [k for k, _ in known])
                        reproduced = True
                    if reproduced and v2 == "unsat":
                        out["discharged"] += 1
                        out["status"] = "known"
                        continue
                    if reproduced:
                        out.update(status="inconclusive", detail="known finding present; a model outside it did not reproduce")
                        return out
                    out.update(status="inconclusive", detail="no counterexample reproduced on concrete values (known-finding harness)")
                    return out
            rep = _replays(ob, sym, hyps, goal, model, timeout_ms)
            if rep is None:
                out.update(status="inconclusive", detail="solver model did not reproduce on concrete values")
                return out
            out.update(status="violation", kind="value", detail=rep["summary"], replay=rep)
            return out
        out["discharged"] += 1
        if twin and conj and out["twin"] is None:
            out["twin"] = engine.hyps_satisfiable(hyps)
    if n_declined == len(paths) and paths:
        out.update(status="declined", detail="all paths declined")
    out["wall_s"] = round(time.time() - t0, 3)
    return out


def _replays(ob, sym, hyps, goal, model, timeout_ms):
    for m in (_try(lambda: _nice(hyps, goal, sym, timeout_ms)), model):
        if m is None:
            continue
        try:
            vals = _values_from_model(sym, m)
        except Unsupported:
            continue
        rep = replay(ob, vals)
        if rep is not None:
            return rep
    return None


def _try(f):
    try:
        return f()
    except Exception:
        return None


def replay(ob, vals):
    """run the obligation on concrete values; returns a replay dict if some pair differs, else None"""
    saved = engine.CUR
    engine.reset()
    try:
        mk = Conc(vals)
        with np.errstate(all="ignore"):
            pairs = ob(mk)
        if not mk.ok:
            return None
        for n, (got, exp) in enumerate(pairs):
            if isinstance(got, (bool, np.bool_)) and exp is None:
                if not got:
                    return dict(summary="side condition %d false" % n, values=_js(vals))
                continue
            g, gs = _cells(got)
            e, es = _cells(exp)
            if not _shape_ok(g, gs, e, es):
                return dict(summary="pair %d: shape %s vs %s" % (n, gs, es), values=_js(vals))
            for i, (a, b) in enumerate(zip(g, e)):
                a = a.item() if isinstance(a, np.generic) else a
                b = b.item() if isinstance(b, np.generic) else b
                if isinstance(b, float) and math.isnan(b):
                    continue
                if not C.concrete_close(a, b):
                    return dict(summary="pair %d cell %d: got %r expected %r" % (n, i, a, b), values=_js(vals))
        return None
    except (Decline, ZeroDivisionError, OverflowError):
        return None
    except Exception as e:  # noqa
        return None
    finally:
        engine.CUR = saved


def _js(vals):
    out = {}
    for k, v in vals.items():
        out[k] = v.tolist() if isinstance(v, np.ndarray) else v
    return out
