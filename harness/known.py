"""Characterising predicates of the known findings (known_findings.jsonl).  Each takes the violation outcome
(with `_inst` = the instance that produced it) and the finding entry and says whether this violation IS that
finding.  A violation of the same property that no predicate matches is reported as a new VIOLATION."""
from lang.prog import type_of


def _prog_of(o):
    inst = o.get("_inst")
    if isinstance(inst, (tuple, list)):
        for x in inst:
            if isinstance(x, (tuple, list)) and x and isinstance(x[0], str) and x[0] in (
                    "leaf", "num", "var", "unary", "binary", "reduce", "subs", "slice", "getitem", "getitem_at", "constant", "getslice", "lambda",
                    "stack", "cat", "outreduce", "reshape", "einsum", "independent", "align"):
                return _tup(x)
    return None


def _tup(x):
    if isinstance(x, list):
        return tuple(_tup(y) for y in x)
    if isinstance(x, tuple):
        return tuple(_tup(y) for y in x)
    return x


def _nodes(e):
    if isinstance(e, tuple):
        if e and isinstance(e[0], str):
            yield e
        for x in e:
            yield from _nodes(x)


def _is_int(e):
    try:
        return type_of(e)[1][0] != "real"
    except Exception:
        return False


def bint_sub_range(o, k):
    """Bint - Bint is declared with the left operand's bound but can be negative"""
    p = _prog_of(o)
    if p is None or o.get("kind") != "range":
        return False
    return any(n[0] == "binary" and n[1] == "sub" and _is_int(n[2]) and _is_int(n[3]) for n in _nodes(p))


def bint_reduce_range(o, k):
    """reduce(add|mul) of bounded-integer data keeps the argument's bound although the sum/product can exceed it"""
    p = _prog_of(o)
    if p is None or o.get("kind") != "range":
        return False
    return any(n[0] == "reduce" and n[1] in ("add", "mul") and _is_int(n[2]) for n in _nodes(p))


def bint_reduce_unrelated_dtype(o, k):
    """reduce(add) of bounded-integer data over a variable it does not mention multiplies by a real Number"""
    p = _prog_of(o)
    d = o.get("detail", "")
    if p is None or o.get("kind") != "type" or not ("output dtype 'real', predicted" in d or "output dtype real, predicted bounded integer" in d):
        return False
    for n in _nodes(p):
        # the same multiplication by a real Number happens when the constant inputs of a Constant are summed out
        if n[0] == "reduce" and n[1] in ("add", "mul") and n[2][0] == "constant" and _is_int(n[2]) and any(name in dict(n[2][1]) for name, _ in n[3]):
            return True
        if n[0] == "reduce" and n[1] in ("add", "mul") and _is_int(n[2]):
            try:
                ins = type_of(n[2])[0]
            except Exception:
                continue
            if any(name not in ins for name, _ in n[3]):
                return True
    return False


def bint_floordiv_range(o, k):
    """Bint // Bint bound is computed for the largest divisor only"""
    p = _prog_of(o)
    if p is None or o.get("kind") != "range":
        return False
    return any(n[0] == "binary" and n[1] == "floordiv" and _is_int(n[2]) and _is_int(n[3]) for n in _nodes(p))


def never(o, k):
    """findings matched by a solver-level predicate inside the check (see checks/*.py), not structurally"""
    return False


def _reduce_unrelated(p):
    for n in _nodes(p):
        if n[0] == "reduce" and n[1] in ("add", "mul") and _is_int(n[2]):
            if n[2][0] == "constant" and any(name in dict(n[2][1]) for name, _ in n[3]):
                return True
            try:
                ins = type_of(n[2])[0]
            except Exception:
                continue
            if any(name not in ins for name, _ in n[3]):
                return True
    return False


def bint_domain_differs(o, k):
    """interpretations disagree on the BOUND of a bounded-integer result (never on real/int kind or shape) for
    programs that subtract bounded integers or reduce them with add/mul - the arithmetic whose Bint typing is
    itself a known finding (KF-bint-sub-range, KF-bint-reduce-range)"""
    import re
    p = _prog_of(o)
    d = o.get("detail", "")
    if p is None or o.get("kind") != "side" or "DOMAIN" not in d:
        return False
    m = re.search(r"has output Bint\[(\d+)((?:,\d+)*)\], immediate evaluation Bint\[(\d+)((?:,\d+)*)\]", d)
    if not m:
        # one side typed Real: the sum over an absent variable / a Constant's constant input multiplies by a real
        # Number on that evaluation route only (KF-bint-reduce-unrelated-dtype)
        m2 = re.search(r"has output (Bint\[\d+\]|Real), immediate evaluation (Bint\[\d+\]|Real)", d)
        return bool(m2) and (m2.group(1) == "Real") != (m2.group(2) == "Real") and _reduce_unrelated(p)
    if m.group(2) != m.group(4):
        return False
    return any((n[0] == "binary" and n[1] == "sub" and _is_int(n[2]) and _is_int(n[3])) or
               (n[0] == "reduce" and n[1] in ("add", "mul") and _is_int(n[2])) for n in _nodes(p))


def modified_psp_preserved_plate(o, k):
    """modified_partial_sum_product given a plate in plate_to_step that is NOT in eliminate"""
    inst = o.get("_inst")
    try:
        g, variant = inst[1], inst[2]
        return variant == "modified_all" and bool(set(g["plates"]) - set(g["eliminate"]))
    except Exception:
        return False


def maxmin_mul_signed(o, k):
    """a max/min reduction over a product, in a program with signed data (a negation / subtraction / negative constant -
    which normalize itself rewrites to a factor -1 - or real-carrier leaves), evaluated through normalize / unfold /
    optimize: (max|min, mul) is in DISTRIBUTIVE_OPS although it distributes on non-negative data only"""
    p = _prog_of(o)
    if p is None or o.get("kind") != "value":
        return False
    lab = o.get("label", "")
    if not any(s in lab for s in ("normalize", "optimizer", "unfold")):
        return False
    def has_mul(e):
        for n in _nodes(e):
            if n[0] == "binary" and n[1] in ("mul", "truediv"):
                return True
            if n[0] == "reduce" and n[1] == "add":      # a sum over a variable its argument lacks is a product with the multiplicity
                try:
                    ins = type_of(n[2])[0]
                except Exception:
                    continue
                if any(name not in ins for name, _ in n[3]):
                    return True
        return False
    if not any(n[0] == "reduce" and n[1] in ("max", "min") and has_mul(n[2]) for n in _nodes(p)):
        return False
    signed = any((n[0] == "unary" and n[1] == "neg") or (n[0] == "binary" and n[1] == "sub") or
                 (n[0] == "num" and isinstance(n[1], (int, float)) and n[1] < 0) or
                 (n[0] == "leaf" and (len(n) < 5 or n[4] in (None, "real"))) for n in _nodes(p))
    return signed


def adjoint_identity_subs(o, k):
    """a leaf wrapped in the identity renaming x(a=a) in an expression built under reflect: the tape files the leaf's
    adjoint under the substituted term (a full-range Slice onto the same name is handled correctly and NOT matched)"""
    p = _prog_of(o)
    if p is None or "opt=reflect" not in o.get("label", ""):
        return False
    for n in _nodes(p):
        if n[0] == "subs" and n[1][0] == "leaf":
            for key, val in n[2]:
                if val[0] == "var" and val[1] == key:
                    return True
    return False


def adjoint_diagonal_rename(o, k):
    """a leaf with one input renamed onto ANOTHER of its own inputs (a diagonal, x(i=k) with k an input of x) in an
    expression built under reflect: the 'injective renaming' shortcut of the Scatter rule returns the incoming adjoint
    unchanged instead of the indicator [i == k]"""
    p = _prog_of(o)
    if p is None or "opt=reflect" not in o.get("label", ""):
        return False
    for n in _nodes(p):
        if n[0] == "subs" and n[1][0] == "leaf":
            own = dict(n[1][2])
            for key, val in n[2]:
                if val[0] == "var" and val[1] != key and val[1] in own:
                    return True
    return False


def approximate_bound_leak(o, k):
    """a lazily built Approximate term exposes the alpha-renamed name of its approx_vars"""
    return str(o.get("label", "")).startswith("binder|approximate|")


def adjoint_shared_binder_name(o, k):
    """a variable name is reduced in a sub-expression and ALSO occurs outside that sub-expression (reduced again in a
    sibling, or free): the tape un-mangles the bound copy to the one user name and mixes the messages"""
    p = _prog_of(o)
    if p is None:
        return False

    def leaves_with(e, name, acc):
        for n in _nodes(e):
            if n[0] == "leaf" and name in dict(n[2]):
                acc.append(id(n))
        return acc
    for n in _nodes(p):
        if n[0] == "reduce":
            for name, _ in n[3]:
                inside = len(leaves_with(n, name, []))
                total = len(leaves_with(p, name, []))
                if total > inside:
                    return True
    return False

