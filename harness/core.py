"""Engine-A program harness: run a Prog through the real funsor code on symbolic cells, decide
`result == oracle` at every point for all contents with z3, replay any counterexample on plain float64."""
import itertools
import math
import random
import time
import traceback
from collections import OrderedDict

import numpy as np
import z3

from symx import engine
from symx.engine import Unsupported
from symx.sv import SV, sv_eval, sv_eq_formula
from symx.symarray import SymArray, as_obj, concretize, install, sym_array
from lang import cellops as C
from lang.denote import OracleUndefined, denote
from lang.prog import IllTyped, leaves_of, show, type_of

MAX_PATHS = 64
CHECK_DTYPE = [True]


# --------------------------------------------------------------------------------------------------
# leaves
# --------------------------------------------------------------------------------------------------

def leaf_shape(leaf):
    _, name, inputs, shape, carrier = leaf
    return tuple(n for _, n in inputs) + tuple(shape)


def sym_leaves(prog):
    out = OrderedDict()
    for name, lf in leaves_of(prog).items():
        out[name] = sym_array(name, leaf_shape(lf), lf[4])
    return out


def conc_array(shape, carrier, rng):
    n = int(np.prod(shape, dtype=int))
    if carrier == "real":
        v = [rng.choice([-2.0, -1.0, -0.5, 0.0, 0.5, 1.0, 2.0, 3.0]) if rng.random() < 0.5 else rng.uniform(-3, 3) for _ in range(n)]
        return np.array(v, dtype=np.float64).reshape(shape)
    if carrier == "nonneg":
        v = [rng.choice([0.0, 0.5, 1.0, 2.0]) if rng.random() < 0.5 else rng.uniform(0, 3) for _ in range(n)]
        return np.array(v, dtype=np.float64).reshape(shape)
    if carrier == "pos":
        return np.array([rng.uniform(0.1, 3) for _ in range(n)], dtype=np.float64).reshape(shape)
    if carrier == "log":
        v = [-math.inf if rng.random() < 0.2 else rng.uniform(-3, 2) for _ in range(n)]
        return np.array(v, dtype=np.float64).reshape(shape)
    if carrier == "logfinite":
        return np.array([rng.uniform(-3, 2) for _ in range(n)], dtype=np.float64).reshape(shape)
    if carrier == "bool":
        return np.array([rng.random() < 0.5 for _ in range(n)], dtype=bool).reshape(shape)
    if isinstance(carrier, tuple) and carrier[0] == "int":
        return np.array([rng.randrange(carrier[1]) for _ in range(n)], dtype=np.int64).reshape(shape)
    raise ValueError(carrier)


def conc_leaves(prog, rng):
    return OrderedDict((name, conc_array(leaf_shape(lf), lf[4], rng)) for name, lf in leaves_of(prog).items())


# --------------------------------------------------------------------------------------------------
# evaluating a funsor result at every point
# --------------------------------------------------------------------------------------------------

class Declined(Exception):
    """funsor declined (raised / left a lazy term): allowed by the properties"""


class TypeViolation(Exception):
    pass


class SideViolation(TypeViolation):
    """a concrete side condition of the property failed (object identity of memoized results, idempotence...)"""


def relational_oracle(reference_builder):
    """oracle = the value of ANOTHER run of the real code (e.g. immediate eager evaluation) over the same symbols"""
    cache = {}

    def oracle(prog, env, leaves):
        key = id(leaves)
        if key not in cache:
            cache.clear()
            try:
                ref = reference_builder(prog, leaves)
                real_env = {k: v for k, v in env.items() if isinstance(v, np.ndarray)}
                cache[key] = bind_reals(ref, real_env)
            except (Unsupported, engine.Abort):
                raise
            except Exception as e:  # noqa
                raise Declined("reference run declined: %s" % type(e).__name__)
        pt = {k: v for k, v in env.items() if not isinstance(v, np.ndarray)}
        return result_cells(cache[key], pt)
    return oracle


def funsor_inputs(f):
    out = OrderedDict()
    for k, d in f.inputs.items():
        if isinstance(d.dtype, int) and d.shape == ():
            out[k] = ("bint", d.dtype)
        elif d.dtype == "real":
            out[k] = ("real", tuple(d.shape))
        else:
            out[k] = ("intarr", d.dtype, tuple(d.shape))
    return out


def bind_reals(result, real_env):
    """substitute arrays for the remaining real-valued inputs (the property's `bound to concrete values`)"""
    from funsor.tensor import Tensor
    sub = {k: Tensor(v) for k, v in real_env.items() if k in result.inputs}
    if sub:
        result = result(**sub)
    return result


def result_cells(result, point):
    """object array (output shape) of the value of a ground funsor at an integer point"""
    from funsor.tensor import Tensor
    from funsor.terms import Number
    if isinstance(result, Number):
        a = np.empty((), dtype=object)
        a[()] = result.data
        return a
    if isinstance(result, Tensor):
        data = result.data
        data = data.view(np.ndarray) if isinstance(data, np.ndarray) else np.asarray(data)
        idx = tuple(point[k] for k in result.inputs)
        r = data[idx] if idx else data
        if not isinstance(r, np.ndarray):
            a = np.empty((), dtype=object)
            a[()] = r
            return a
        if r.dtype != object:
            o = np.empty(r.shape, dtype=object)
            for i in np.ndindex(*r.shape):
                o[i] = r[i].item()
            return o
        return r
    # a lazy result: bind the remaining integer inputs at this point (the property's "once its remaining free
    # inputs are bound to concrete values") and expect a ground value
    if _depth[0] == 0 and result.inputs:
        sub = {k: Number(int(point[k]), d.dtype) for k, d in result.inputs.items()
               if k in point and isinstance(d.dtype, int) and d.shape == ()}
        if sub:
            _depth[0] += 1
            try:
                try:
                    r2 = result(**sub)
                except Exception as e:  # noqa
                    raise Declined("binding integer inputs of lazy %s: %s" % (type(result).__name__, type(e).__name__))
                return result_cells(r2, point)
            finally:
                _depth[0] -= 1
    raise Declined("result is a lazy %s" % type(result).__name__)


_depth = [0]


def all_points(pred_inputs):
    names = [k for k, d in pred_inputs.items() if d[0] == "bint"]
    for pt in itertools.product(*(range(pred_inputs[k][1]) for k in names)):
        yield dict(zip(names, pt))


def check_result_type(result, pred_inputs, pred_output, exact_inputs=False, check_dtype=True):
    """structural (concrete) side conditions shared by C01/C03/C04/C06: inputs of the result are among the
    predicted ones with the same domains; output shape matches; dtype kind matches."""
    got = funsor_inputs(result)
    for k, d in got.items():
        if k not in pred_inputs:
            raise TypeViolation("result has input %r that the expression does not have" % k)
        if tuple(pred_inputs[k]) != tuple(d):
            raise TypeViolation("input %r: domain %s, predicted %s" % (k, d, pred_inputs[k]))
    if exact_inputs and set(got) != set(pred_inputs):
        raise TypeViolation("lazy term declares inputs %s, predicted %s" % (sorted(got), sorted(pred_inputs)))
    dtype, shape = pred_output
    if tuple(result.output.shape) != tuple(shape):
        raise TypeViolation("output shape %s, predicted %s" % (tuple(result.output.shape), tuple(shape)))
    if not check_dtype:
        return
    if dtype == "real":
        if result.output.dtype != "real":
            raise TypeViolation("output dtype %r, predicted real" % (result.output.dtype,))
    elif isinstance(dtype, int):
        if result.output.dtype != dtype:
            raise TypeViolation("output dtype %r, predicted %r" % (result.output.dtype, dtype))
    else:
        if result.output.dtype == "real":
            raise TypeViolation("output dtype real, predicted bounded integer")


# --------------------------------------------------------------------------------------------------
# one instance
# --------------------------------------------------------------------------------------------------

class Outcome(dict):
    """status: ok | violation | declined | unsupported | inconclusive | illtyped | gap"""

    def __getattr__(self, k):
        return self[k]


def _real_env(pred_inputs, symbolic, rng):
    env = OrderedDict()
    for k, d in pred_inputs.items():
        if d[0] == "real":
            if symbolic:
                env[k] = sym_array("free_" + k, tuple(d[1]), "real")
            else:
                env[k] = conc_array(tuple(d[1]), "real", rng)
    return env


def run_concrete(prog, builder, leaves, real_env, pred_inputs, pred_output, oracle_fn=None, check_types=True, check_dtype=None):
    """returns (mismatches, n_cells, result) ; raises Declined"""
    try:
        with np.errstate(all="ignore"):
            result = builder(prog, leaves)
    except (Unsupported, engine.Abort):
        raise
    except SideViolation:
        raise
    except Exception as e:  # noqa
        raise Declined("%s: %s" % (type(e).__name__, str(e)[:200]))
    if check_types:
        check_result_type(result, pred_inputs, pred_output, check_dtype=CHECK_DTYPE[0] if check_dtype is None else check_dtype)
    try:
        with np.errstate(all="ignore"):
            ground = bind_reals(result, real_env)
    except Exception as e:  # noqa
        raise Declined("binding reals: %s: %s" % (type(e).__name__, str(e)[:200]))
    mism = []
    n = 0
    for pt in all_points(pred_inputs):
        got = result_cells(ground, pt)
        env = dict(pt)
        env.update(real_env)
        try:
            exp = (oracle_fn or denote)(prog, env, leaves)
        except (OracleUndefined, ZeroDivisionError, ValueError, OverflowError):
            continue
        except Declined:
            raise
        if got.shape != exp.shape:
            raise TypeViolation("value shape %s vs oracle %s" % (got.shape, exp.shape))
        for i in np.ndindex(*got.shape):
            n += 1
            e_ = exp[i]
            if isinstance(e_, float) and math.isnan(e_):
                continue
            if not C.concrete_close(got[i], e_):
                mism.append((pt, i, _pyval(got[i]), _pyval(e_)))
    return mism, n, result


def _pyval(x):
    if isinstance(x, (np.generic,)):
        return x.item()
    return x


def check_prog(prog, builder, seed=0, twin=False, oracle_fn=None, label="", extra_obligation=None,
               timeout_ms=None, int_range_check=True, concolic=True, monitors=(), check_dtype=True):
    """Decide `builder(prog)` == denote(prog) for all contents.  Returns Outcome."""
    install()
    CHECK_DTYPE[0] = check_dtype
    t0 = time.time()
    out = Outcome(status="ok", prog=show(prog), label=label, detail="", paths=0, cells=0, nontrivial=False,
                  solver_s=0.0, twin=None, defined=0)
    try:
        pred_inputs, pred_output = type_of(prog)
    except IllTyped as e:
        out.update(status="illtyped", detail=str(e))
        return out
    rng = random.Random(hash((seed, show(prog))) & 0xFFFFFFF)
    # ---- 1. concrete pre-run (classifies declines; concolic reference) -------------------------------
    from lang.prog import leaves_of as _leaves_of
    if any(isinstance(lf[4], tuple) and lf[4][0] == "int" and lf[4][1] <= 0 for lf in _leaves_of(prog).values()):
        out.update(status="illtyped", detail="an integer leaf with an empty value range (index into an empty dimension)")
        return out
    cleaves = conc_leaves(prog, rng)
    cenv = _real_env(pred_inputs, False, rng)
    engine.reset()
    try:
        mism, ncells, cres = run_concrete(prog, builder, cleaves, cenv, pred_inputs, pred_output, oracle_fn)
    except Declined as e:
        out.update(status="declined", detail=str(e))
        return out
    except TypeViolation as e:
        out.update(status="violation", kind="side" if isinstance(e, SideViolation) else "type", detail=str(e),
                   replay=dict(prog=prog, leaves={k: v.tolist() for k, v in cleaves.items()},
                               real_env={k: v.tolist() for k, v in cenv.items()}))
        return out
    out["concrete_mismatch"] = len(mism)

    # ---- 2. symbolic run ---------------------------------------------------------------------------------
    state = {}

    def setup(c):
        state["leaves"] = c.notes_leaves = sym_leaves(prog)
        state["env"] = c.notes_env = _real_env(pred_inputs, True, None)

    def body():
        for m in monitors:
            m.begin(state)
        res = builder(prog, state["leaves"])
        ground = bind_reals(res, state["env"])
        pts = []
        for pt in all_points(pred_inputs):
            pts.append((pt, result_cells(ground, pt)))
        for m in monitors:
            m.end(state, res)
        return res, pts

    try:
        paths = engine.explore(body, max_paths=MAX_PATHS, setup=setup)
    except engine.PathCapExceeded:
        out.update(status="inconclusive", detail="path cap %d exceeded" % MAX_PATHS)
        return out
    out["paths"] = len(paths)
    goals_all = []
    for pr in paths:
        c = pr.ctx
        engine.CUR = c   # oracle evaluation may register axioms/definedness in this path's context
        if pr.exc is not None:
            if isinstance(pr.exc, Unsupported):
                out.update(status="unsupported", detail=str(pr.exc)[:200])
                return out
            if isinstance(pr.exc, Declined):
                out.update(status="declined", detail="symbolic path: " + str(pr.exc)[:200])
                return out
            # exception only on a symbolic path: may be a legitimate data dependent raise; check with concrete? treat as gap
            out.update(status="gap", detail="symbolic-only exception %s: %s" % (type(pr.exc).__name__, str(pr.exc)[:300]),
                       tb="".join(traceback.format_exception(type(pr.exc), pr.exc, pr.exc.__traceback__))[-1500:])
            return out
        res, pts = pr.value
        leaves, env = _path_state(pr)
        conj = []
        cells = []
        try:
            for pt, got in pts:
                e2 = dict(pt)
                e2.update(env)
                try:
                    exp = (oracle_fn or denote)(prog, e2, leaves)
                except OracleUndefined:
                    continue
                except Declined as e:
                    out.update(status="declined", detail=str(e)[:200])
                    return out
                if got.shape != exp.shape:
                    out.update(status="violation", kind="type", detail="value shape %s vs oracle %s" % (got.shape, exp.shape))
                    return out
                for i in np.ndindex(*got.shape):
                    f = sv_eq_formula(got[i], exp[i])
                    conj.append(f)
                    cells.append((pt, i, got[i], exp[i]))
        except Unsupported as e:
            out.update(status="unsupported", detail="oracle: " + str(e)[:200])
            return out
        out["cells"] += len(conj)
        out["defined"] += len(c.defined)
        goal = z3.And(*(conj + c.must_prove())) if (conj or c.must_prove()) else z3.BoolVal(True)
        if not z3.is_true(z3.simplify(goal)):
            out["nontrivial"] = True
        hyps = c.hyps()
        verdict, model, dt = engine.check_valid(hyps, goal, timeout_ms)
        out["solver_s"] += dt
        if verdict == "unknown":
            out.update(status="inconclusive", detail="solver unknown/timeout")
            return out
        if verdict == "sat":
            rep = _replay(prog, builder, leaves, env, pred_inputs, pred_output, hyps, goal, model, oracle_fn, timeout_ms)
            if rep is None:
                out.update(status="inconclusive", detail="solver model did not reproduce on float64 (spurious under the real-arithmetic abstraction)")
                return out
            out.update(status="violation", kind="value", detail=rep["summary"], replay=rep)
            return out
        # int range side condition (C06): bounded-integer outputs lie in [0,size)
        if int_range_check and isinstance(res.output.dtype, int) and cells:
            rng_goal = []
            for pt, i, g, e_ in cells:
                g = SV.lift(g)
                if g.k == "int":
                    rng_goal.append(z3.And(g.l >= 0, g.l < res.output.dtype))
                elif g.k == "bool":
                    if res.output.dtype < 2:
                        rng_goal.append(z3.Not(g.l))
            if rng_goal:
                v2, m2, dt2 = engine.check_valid(hyps, z3.And(*rng_goal), timeout_ms)
                out["solver_s"] += dt2
                if v2 == "sat":
                    rep = _replay_range(prog, builder, leaves, env, pred_inputs, pred_output, m2)
                    if rep is not None:
                        out.update(status="violation", kind="range", detail=rep["summary"], replay=rep)
                        return out
                    out.update(status="inconclusive", detail="range model did not reproduce")
                    return out
        if extra_obligation is not None:
            r = extra_obligation(pr, res, pts, hyps)
            if r is not None:
                out.update(r)
                return out
        if twin and conj and out["twin"] is None:
            # reachability twin: perturb the oracle in one cell; must be satisfiable
            pt, i, g, e_ = cells[0]
            try:
                pert = _perturb(e_)
                tv, _, _ = engine.check_valid(hyps, z3.And(sv_eq_formula(g, pert), *conj[1:]), timeout_ms)
                if tv == "unsat" and c.defined and engine.hyps_satisfiable(hyps, timeout_ms) == "unsat" and \
                        engine.hyps_satisfiable(c.hyps(with_defined=False), timeout_ms) == "sat":
                    # the definedness conditions alone are contradictory: the program has no defined value at any
                    # input (e.g. x / std over a single element); nothing to decide, and not a vacuous harness
                    out.update(status="declined", detail="undefined at every input: %s" % sorted({t for _, t in c.defined})[:4])
                    return out
                out["twin"] = tv
            except Unsupported:
                out["twin"] = "n/a"
        # concolic cross-check: symbolic result under the pre-run's concrete leaf values == concrete result
        if concolic and len(paths) == 1:
            bad = _concolic(prog, leaves, env, cleaves, cenv, cells, cres, pred_inputs, defined=[d for d, _ in c.defined])
            if bad:
                out.update(status="gap", detail="concolic mismatch (numpy model / stub wrong?): %s" % (bad,))
                return out
        goals_all.append(goal)
    out["wall_s"] = round(time.time() - t0, 3)
    return out


def _path_state(pr):
    # the leaves/env of a path are those created by setup() on that path: recover from closure via ctx notes
    return pr.ctx.notes_leaves, pr.ctx.notes_env


def _perturb(e_):
    e_ = SV.lift(e_)
    if e_.k == "bool":
        return SV("bool", z3.Not(e_.l))
    if e_.k == "int":
        return SV("int", e_.l + 1)
    if e_.k == "pinf":
        return SV("real", z3.RealVal(0))
    if e_.p is None:
        return SV("real", e_.l + 1)
    return SV("real", e_.l, e_.p + 1)


def _leaf_vars(arr):
    """[(z3 const, cell, part)] of a sym_array-created array"""
    out = []
    for idx in np.ndindex(*arr.shape):
        c = arr.view(np.ndarray)[idx]
        if not isinstance(c, SV):
            continue
        if c.k == "real":
            if c.p is not None and z3.is_const(c.p) and c.p.decl().kind() == z3.Z3_OP_UNINTERPRETED:
                out.append((c.p, idx, "p"))
            elif z3.is_const(c.l) and c.l.decl().kind() == z3.Z3_OP_UNINTERPRETED:
                out.append((c.l, idx, "l"))
        elif z3.is_const(c.l) and c.l.decl().kind() == z3.Z3_OP_UNINTERPRETED:
            out.append((c.l, idx, c.k))
    return out


def nice_model(hyps, goal, arrays, timeout_ms=None):
    """re-query with every leaf variable restricted to a small integer (exactly representable in float64)"""
    cons = []
    for a in arrays:
        for v, idx, part in _leaf_vars(a):
            if v.sort() == z3.RealSort():
                cons.append(z3.Or(*[v == k for k in range(-3, 5)]))
    if not cons:
        return None
    s = z3.Solver()
    engine._budget(s, min(timeout_ms or engine.Z3_TIMEOUT_MS, 10000))
    s.add(*hyps)
    s.add(z3.Not(goal))
    s.add(*cons)
    if s.check() == z3.sat:
        return s.model()
    return None


def concretize_leaves(prog, leaves, model):
    out = OrderedDict()
    lf = leaves_of(prog)
    for name, arr in leaves.items():
        carrier = lf[name][4] if name in lf else "real"
        if carrier == "bool":
            dt = bool
        elif isinstance(carrier, tuple):
            dt = np.int64
        else:
            dt = np.float64
        out[name] = concretize(arr, model, dt)
    return out


def _replay(prog, builder, leaves, env, pred_inputs, pred_output, hyps, goal, model, oracle_fn, timeout_ms=None):
    arrays = list(leaves.values()) + list(env.values())
    models = []
    try:
        nm = nice_model(hyps, goal, arrays, timeout_ms)
    except z3.Z3Exception:
        nm = None
    if nm is not None:
        models.append(nm)
    models.append(model)
    for m in models:
        try:
            cl = concretize_leaves(prog, leaves, m)
            ce = OrderedDict((k, concretize(v, m, np.float64)) for k, v in env.items())
        except Unsupported:
            continue
        saved = engine.CUR
        engine.reset()
        try:
            mism, n, _ = run_concrete(prog, builder, cl, ce, pred_inputs, pred_output, oracle_fn)
        except Declined:
            continue
        except TypeViolation as e:
            return dict(summary="type: " + str(e), prog=prog, leaves={k: v.tolist() for k, v in cl.items()},
                        real_env={k: v.tolist() for k, v in ce.items()}, mismatches=[])
        finally:
            engine.CUR = saved
        if mism:
            pt, i, got, exp = mism[0]
            return dict(summary="at %s%s got %r expected %r" % (pt, list(i), got, exp), prog=prog,
                        leaves={k: v.tolist() for k, v in cl.items()}, real_env={k: v.tolist() for k, v in ce.items()},
                        mismatches=[(pt, list(i), _j(g), _j(e)) for pt, i, g, e in mism[:8]])
    return None


def _j(x):
    if isinstance(x, float) and (math.isinf(x) or math.isnan(x)):
        return repr(x)
    if isinstance(x, (np.generic,)):
        return x.item()
    return x


def _replay_range(prog, builder, leaves, env, pred_inputs, pred_output, model):
    try:
        cl = concretize_leaves(prog, leaves, model)
        ce = OrderedDict((k, concretize(v, model, np.float64)) for k, v in env.items())
    except Unsupported:
        return None
    saved = engine.CUR
    engine.reset()
    try:
        res = builder(prog, cl)
        res = bind_reals(res, ce)
        from funsor.tensor import Tensor
        if isinstance(res, Tensor) and isinstance(res.output.dtype, int):
            d = np.asarray(res.data)
            bad = (d < 0) | (d >= res.output.dtype)
            if bad.any():
                return dict(summary="bounded-integer output %s outside [0,%d)" % (d[bad].tolist()[:4], res.output.dtype),
                            prog=prog, leaves={k: v.tolist() for k, v in cl.items()},
                            real_env={k: v.tolist() for k, v in ce.items()}, mismatches=[])
    except Exception:
        return None
    finally:
        engine.CUR = saved
    return None


def _concolic(prog, leaves, env, cleaves, cenv, cells, cres, pred_inputs, max_cells=24, defined=()):
    """evaluate symbolic result cells under the pre-run's concrete leaf values; compare with the concrete result"""
    pairs = []
    for name, arr in list(leaves.items()) + list(env.items()):
        conc = cleaves.get(name) if name in cleaves else cenv.get(name)
        if conc is None:
            continue
        for v, idx, part in _leaf_vars(arr):
            x = conc[idx]
            if part == "p":
                x = float(x)
                val = z3.RealVal(0) if x == -math.inf else z3.RealVal(repr(math.exp(x)))
            elif part == "bool":
                val = z3.BoolVal(bool(x))
            elif part == "int":
                val = z3.IntVal(int(x))
            else:
                val = z3.RealVal(repr(float(x)))
            pairs.append((v, val))
    try:
        ground = bind_reals(cres, cenv)
    except Exception:
        return None
    for d in defined:      # the concrete point lies outside the domain of definition (e.g. an integer division by zero)
        try:
            if z3.is_false(z3.simplify(z3.substitute(d, *pairs))):
                return None
        except z3.Z3Exception:
            return None
    for pt, i, g, e_ in cells[:max_cells]:
        g = SV.lift(g)
        try:
            cv = result_cells(ground, pt)[i]
        except Exception:
            return None
        try:
            if g.k == "pinf":
                sv = math.inf
            elif g.k == "bool":
                r = z3.simplify(z3.substitute(g.l, *pairs))
                if not (z3.is_true(r) or z3.is_false(r)):
                    continue
                sv = z3.is_true(r)
            elif g.k == "int":
                r = z3.simplify(z3.substitute(g.l, *pairs))
                if not z3.is_int_value(r):
                    continue
                sv = r.as_long()
            else:
                r = z3.simplify(z3.substitute(g.l, *pairs))
                if not z3.is_rational_value(r):
                    continue
                sv = float(r.as_fraction())
                if g.p is not None:
                    rp = z3.simplify(z3.substitute(g.p, *pairs))
                    if not z3.is_rational_value(rp):
                        continue
                    pv = float(rp.as_fraction())
                    sv = -math.inf if pv <= 0 else sv + math.log(pv)
        except z3.Z3Exception:
            continue
        cvf = cv.item() if isinstance(cv, np.generic) else cv
        if isinstance(cvf, float) and math.isnan(cvf):
            continue
        if not C.concrete_close(sv, cvf, rtol=1e-5, atol=1e-7):
            return "point %s%s symbolic-under-values %r vs concrete %r" % (pt, list(i), sv, cvf)
    return None
