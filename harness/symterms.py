"""Engine-B support: build real funsor terms whose integer fields are symbolic.
Interning is what hashes its arguments, so it is stubbed, and only it:
 * funsor.terms.Bint -> a non-interning factory (fresh type with symbolic size/dtype/shape),
 * a total CallableInterpretation that builds terms with object.__new__ + the REAL cls.__init__."""
import contextlib

import funsor.terms as T
from funsor.interpretations import CallableInterpretation


def sym_bint(size):
    return type("BintSym", (), {"size": size, "dtype": size, "shape": (), "num_elements": 1})


class _BintF:
    def __getitem__(self, size):
        return sym_bint(size)


class _ArrayF:
    def __getitem__(self, ds):
        dtype, shape = ds
        return type("ArraySym", (), {"size": dtype, "dtype": dtype, "shape": tuple(shape), "num_elements": 1})


@CallableInterpretation
def raw(cls, *args):
    obj = object.__new__(cls)
    obj.__init__(*args)
    obj._ast_values = args
    return obj


raw.is_total = True


@contextlib.contextmanager
def raw_terms():
    old, old_a = T.Bint, T.Array
    T.Bint = _BintF()
    T.Array = _ArrayF()
    try:
        with raw:
            yield
    finally:
        T.Bint, T.Array = old, old_a


class PartStub:
    """duck-typed sub-funsor: exposes .inputs/.output and records substitutions applied to it"""

    def __init__(self, name, inputs, output=None, applied=()):
        from funsor.domains import Real
        output = Real if output is None else output
        self.name = name
        self.inputs = dict(inputs)
        self.output = output
        self.applied = tuple(applied)

    def __call__(self, **kw):
        inputs = dict(self.inputs)
        for k, v in kw.items():
            if k in inputs:
                del inputs[k]
                if hasattr(v, "inputs"):
                    inputs.update(v.inputs)
        return PartStub(self.name, inputs, self.output, self.applied + (kw,))
