"""Shared check runner: parallel execution of instances, known-finding matching, evidence, exit codes.

exit codes: 0 property held on everything explored (maybe with KNOWN-FINDING lines)
            1 VIOLATION (replayed on the real code, not listed as a known finding)
            3 harness error / vacuity / too many inconclusive instances (never with a VIOLATION line)
"""
import argparse
import collections
import json
import multiprocessing as mp
import os
import sys
import time
import traceback

ROOT = os.path.dirname(os.path.dirname(os.path.abspath(__file__)))
REPO = os.environ.get("VERIF_REPO", "/repo")
OUT = os.environ.get("VERIF_OUT", ROOT)
if REPO not in sys.path:
    sys.path.insert(0, REPO)

_SEEN_FUNCS = set()
_NEW_FUNCS = []


def _install_function_recorder():
    """record which functions of /repo/funsor are executed (cheap: each code object reports once)"""
    try:
        mon = sys.monitoring
        tool = 3
        try:
            mon.use_tool_id(tool, "verif-cov")
        except ValueError:
            return

        def on_start(code, offset):
            fn = code.co_filename
            if fn.startswith(REPO + "/funsor"):
                key = fn[len(REPO) + 1:] + ":" + code.co_qualname
                if key not in _SEEN_FUNCS:
                    _SEEN_FUNCS.add(key)
                    _NEW_FUNCS.append(key)
            return mon.DISABLE
        mon.register_callback(tool, mon.events.PY_START, on_start)
        mon.set_events(tool, mon.events.PY_START)
    except Exception:  # pragma: no cover
        pass


def _worker_init(path_extra):
    for p in list(path_extra) + [REPO]:
        if p in sys.path:
            sys.path.remove(p)
        sys.path.insert(0, p)
    os.environ.setdefault("OMP_NUM_THREADS", "1")
    _install_function_recorder()


def _run_one(args):
    fn_module, fn_name, inst = args
    import importlib
    mod = importlib.import_module(fn_module)
    fn = getattr(mod, fn_name)
    t0 = time.time()
    try:
        out = fn(inst)
    except BaseException as e:  # noqa  (CrossHair-like control exceptions are BaseException)
        out = dict(status="harness_error", detail="%s: %s" % (type(e).__name__, str(e)[:300]),
                   tb=traceback.format_exc()[-2000:])
    out = dict(out)
    out.setdefault("wall_s", round(time.time() - t0, 3))
    new = list(_NEW_FUNCS)
    del _NEW_FUNCS[:]
    out["_funcs"] = new
    from symx import engine
    out["_stats"] = engine.STATS.as_dict()
    engine.STATS.__init__()
    return out


def load_known_findings():
    path = os.path.join(ROOT, "known_findings.jsonl")
    out = []
    if os.path.exists(path):
        for line in open(path):
            line = line.strip()
            if line and not line.startswith("#"):
                out.append(json.loads(line))
    return out


class Check:
    def __init__(self, pid, level, description=""):
        self.pid = pid
        self.level = level
        ap = argparse.ArgumentParser(description=description)
        ap.add_argument("--tier", default=os.environ.get("VERIF_TIER", "quick"), choices=["quick", "thorough"])
        ap.add_argument("--seed", type=int, default=int(os.environ.get("VERIF_SEED", "0")))
        ap.add_argument("--jobs", type=int, default=int(os.environ.get("VERIF_JOBS", str(min(16, os.cpu_count() or 1)))))
        ap.add_argument("--replay", default=None)
        ap.add_argument("--limit", type=int, default=0, help="debug: only the first N instances")
        ap.add_argument("--filter", default=None, help="debug: only instances whose label contains this")
        self.args = ap.parse_args()
        self.tier = self.args.tier
        os.environ["VERIF_TIER"] = self.tier
        if self.tier == "thorough":
            os.environ.setdefault("VERIF_CROSSCHECK_EVERY", "40")      # two solvers: every 40th decided query also goes to cvc5
        os.environ["VERIF_SEED"] = str(self.args.seed)
        self.seed = self.args.seed
        self.t0 = time.time()
        import glob
        self.replay_inst = None
        if self.args.replay:
            # --replay <file>: re-run only the instance recorded in a replay file, on the current /repo tree
            with open(self.args.replay) as f:
                rec = json.load(f)
            self.replay_inst = rec.get("instance")
            self.replay_was = rec.get("outcome", {})
            if rec.get("outcome", {}).get("_env"):
                os.environ.update(rec["outcome"]["_env"])
        else:
            for f in glob.glob(os.path.join(OUT, "replays", "%s_*.json" % pid)):
                try:
                    os.remove(f)
                except OSError:
                    pass
        self.outcomes = []
        self.funcs = set()
        self.stats = collections.Counter()
        self.known = [k for k in load_known_findings() if (k.get("property") == pid or pid in k.get("also", ())) and k.get("status", "open") == "open"]
        self.known_hit = collections.OrderedDict()
        self.violations = []
        self.harness_errors = []
        self.notes = []
        self.extra_cov = {}
        self.assumptions = []
        self.bounds = {}
        self.samples = []
        self.floor = 1
        self.max_inconclusive_share = 0.2

    # ---- running ---------------------------------------------------------------------------------
    def map(self, module, fn_name, instances, chunksize=4, family=None):
        """run `module.fn_name(inst)` for each instance in worker processes; returns outcomes (dicts)"""
        if self.replay_inst is not None:
            instances = [i for i in instances if _jsonable(i) == self.replay_inst]
        if self.args.filter:
            instances = [i for i in instances if self.args.filter in str(i)]
        if self.args.limit:
            instances = instances[: self.args.limit]
        jobs = max(1, self.args.jobs)
        tasks = [(module, fn_name, i) for i in instances]
        outs = []
        if jobs == 1 or len(tasks) <= 1:
            _worker_init([ROOT])
            for t in tasks:
                outs.append(_run_one(t))
        else:
            ctx = mp.get_context("spawn")
            with ctx.Pool(jobs, initializer=_worker_init, initargs=([ROOT],), maxtasksperchild=40) as pool:
                for o in pool.imap(_run_one, tasks, chunksize=chunksize):
                    outs.append(o)
        for inst, o in zip(instances, outs):
            o["_inst"] = inst
            o["_family"] = family
            self.funcs.update(o.pop("_funcs", ()))
            for k, v in o.pop("_stats", {}).items():
                self.stats[k] += v
            self.outcomes.append(o)
        return outs

    # ---- classification ----------------------------------------------------------------------------
    def match_known(self, o):
        """returns the known-finding entry this violation outcome matches, else None.  Matching is by the
        entry's `match` predicate: {"fn": "<module>:<function>"} called with the outcome."""
        import importlib
        for k in self.known:
            m = k.get("match", {})
            try:
                mod, fn = m["fn"].split(":")
                if getattr(importlib.import_module(mod), fn)(o, k):
                    return k
            except Exception as e:  # a broken predicate must not hide a violation
                self.notes.append("known-finding predicate %s failed: %s" % (k.get("id"), e))
        return None

    def finish(self, rule, trusted_base=(), checker_cmd=None, explanation=None):
        by = collections.Counter(o["status"] for o in self.outcomes)
        if self.replay_inst is not None:
            # replay mode: no evidence, no coverage floors - only the recorded instance, re-decided on the current tree
            if not self.outcomes:
                print("REPLAY property=%s: the recorded instance is not generated by this tier/seed (run with the tier and seed of the original run)" % self.pid)
                sys.exit(3)
            code = 0
            for o in self.outcomes:
                known = self.match_known(o) if o["status"] == "violation" else None
                print("REPLAY property=%s status=%s%s :: %s :: %s" % (self.pid, o["status"], " (known finding %s)" % known["id"] if known else "",
                                                                 (o.get("prog") or o.get("label") or "")[:200], o.get("detail", "")[:300]))
                if o["status"] == "violation" and known is None:
                    print("VIOLATION property=%s replay=%s" % (self.pid, self.args.replay))
                    code = 1
            sys.exit(code)
        viol = []
        for o in self.outcomes:
            if o["status"] == "violation":
                k = self.match_known(o)
                if k is not None:
                    self.known_hit.setdefault(k["id"], (k, []))[1].append(o)
                else:
                    viol.append(o)
            elif o["status"] == "harness_error":
                self.harness_errors.append(o)
            for kid in o.get("known_present", ()) if o["status"] in ("known", "violation") else ():
                ent = [k for k in self.known if k["id"] == kid]
                if ent:
                    self.known_hit.setdefault(kid, (ent[0], []))[1].append(o)
                elif o["status"] == "known":
                    # a finding the file does not list (or lists as fixed) must be reported
                    o["status"] = "violation"
                    o["detail"] = "finding %s is not listed as open in known_findings.jsonl: %s" % (kid, o.get("detail", ""))
                    viol.append(o)
        # ---- report ---------------------------------------------------------------------------------
        os.makedirs(os.path.join(OUT, "replays"), exist_ok=True)
        os.makedirs(os.path.join(OUT, "evidence"), exist_ok=True)
        for kid, (k, os_) in self.known_hit.items():
            print("KNOWN-FINDING: property=%s %s (%d instance(s), e.g. %s)" % (
                self.pid, k.get("what", kid), len(os_), (os_[0].get("prog") or os_[0].get("label") or "")[:160]))
        exit_code = 0
        seen = set()
        for n, o in enumerate(viol):
            key = (o.get("prog"), o.get("label"), o.get("detail"))
            path = os.path.join(OUT, "replays", "%s_%d.json" % (self.pid, n))
            with open(path, "w") as f:
                json.dump(_jsonable(dict(property=self.pid, outcome={k: v for k, v in o.items() if not k.startswith("_")},
                                         instance=o.get("_inst"))), f, indent=1)
            if key not in seen and len(seen) < 20:
                print("VIOLATION property=%s replay=%s" % (self.pid, path))
                print("  detail: %s :: %s :: %s" % (o.get("label", ""), (o.get("prog") or "")[:300], o.get("detail", "")[:300]))
            seen.add(key)
            exit_code = 1
        with open(os.path.join(OUT, "replays", "%s_nonok.json" % self.pid), "w") as f:
            json.dump(_jsonable([{k: v for k, v in o.items() if k not in ("_inst", "replay")} for o in self.outcomes
                                 if o["status"] != "ok"]), f, indent=0)
        n_total = len(self.outcomes)
        n_inc = by.get("inconclusive", 0) + by.get("gap", 0)
        decided = by.get("ok", 0) + by.get("known", 0) + len(viol) + sum(len(v[1]) for v in self.known_hit.values())
        problems = []
        if self.harness_errors:
            problems.append("%d harness errors, e.g. %s" % (len(self.harness_errors), self.harness_errors[0].get("detail")))
        if getattr(self, "max_unsupported", None) is not None and by.get("unsupported", 0) > self.max_unsupported:
            # an instance the numpy model cannot execute is an ENCODING gap (e.g. a numpy function new to the kernel);
            # where the unchanged tree has none, it must not disappear silently in the inconclusive budget
            problems.append("%d unsupported instances (encoding gap; at most %d expected), e.g. %s" % (
                by.get("unsupported", 0), self.max_unsupported, next((o.get("detail") for o in self.outcomes if o["status"] == "unsupported"), "")))
        if n_total and n_inc / max(1, n_total) > self.max_inconclusive_share:
            problems.append("inconclusive share %d/%d exceeds budget" % (n_inc, n_total))
        if self.stats.get("xcheck_disagree", 0):
            problems.append("two-solver cross-check: cvc5 disagrees with z3 on %d queries" % self.stats["xcheck_disagree"])
        if decided < self.floor:
            problems.append("coverage floor: only %d decided instances (< %d)" % (decided, self.floor))
        twins = [o.get("twin") for o in self.outcomes if o.get("twin") is not None]
        if twins and not any(t == "sat" for t in twins):
            problems.append("vacuity: no reachability twin came back sat")
        vac = [o for o in self.outcomes if o.get("twin") == "unsat"]
        if vac:
            problems.append("vacuity: %d reachability twins unsat, e.g. %s" % (len(vac), vac[0].get("prog") or vac[0].get("label")))
        nontriv = {(o.get("prog") or o.get("label") or str(i)) for i, o in enumerate(self.outcomes)
                   if o["status"] == "ok" and o.get("nontrivial")}
        samples = self.samples or [
            {k: v for k, v in o.items() if k in ("prog", "label", "status", "paths", "cells", "detail", "twin")}
            for o in self.outcomes if o["status"] == "ok" and o.get("nontrivial")][:5]
        if not samples:
            samples = [{k: v for k, v in o.items() if k in ("prog", "label", "status", "detail")} for o in self.outcomes[:3]]
        obligations = sum(int(o.get("obligations", 1 if o["status"] in ("ok", "violation") else 0)) for o in self.outcomes)
        discharged = sum(int(o.get("discharged", 1 if o["status"] == "ok" else 0)) for o in self.outcomes)
        cov = dict(
            evaluations=n_total, distinct_nontrivial=len(nontriv), rule=rule, samples=_jsonable(samples),
            obligations=obligations, discharged=discharged,
            by_status=dict(by), violations_new=len(viol),
            known_findings_present=[k for k in self.known_hit],
            declined_reasons=_top(o.get("detail", "")[:80] for o in self.outcomes if o["status"] == "declined"),
            unsupported_reasons=_top(o.get("detail", "")[:80] for o in self.outcomes if o["status"] == "unsupported"),
            inconclusive_reasons=_top(o.get("detail", "")[:120] for o in self.outcomes if o["status"] in ("inconclusive", "gap")),
            paths=sum(int(o.get("paths", 0)) for o in self.outcomes),
            cells_compared=sum(int(o.get("cells", 0)) for o in self.outcomes),
            reachability_twins=dict(collections.Counter(str(t) for t in twins)),
            solver=dict(self.stats), solver_s=round(self.stats.get("solver_s", 0.0), 3),
            functions_encoded=sorted(self.funcs), n_functions_encoded=len(self.funcs),
            bounds=self.bounds, notes=self.notes[:20], exhaustive=False,
        )
        if checker_cmd:
            cov["checker_cmd"] = checker_cmd
        cov["trusted_base"] = list(trusted_base)
        if explanation:
            cov["explanation"] = explanation
        cov.update(self.extra_cov)
        level = self.level
        if level == "proof" and discharged != obligations:
            # a proof-level record needs every obligation discharged: a run with undecided obligations is recorded one level down
            level = "model_checking"
            cov["explanation"] = (cov.get("explanation", "") + " THIS RUN left %d of %d obligations undecided (inconclusive), so it is recorded "
                                  "at model_checking level; the proof-level claim needs a run with obligations == discharged." % (obligations - discharged, obligations)).strip()
        ev = dict(property_id=self.pid, tier=self.tier, seed=self.seed, level=level, coverage=cov,
                  assumptions=list(self.assumptions), wall_s=round(time.time() - self.t0, 2),
                  violations=len(viol))
        with open(os.path.join(OUT, "evidence", "%s.json" % self.pid), "w") as f:
            json.dump(_jsonable(ev), f, indent=1)
        print("%s %s: %d instances: %s; obligations %d discharged %d; solver %.1fs; wall %.1fs" % (
            self.pid, self.tier, n_total, dict(by), obligations, discharged, self.stats.get("solver_s", 0.0), time.time() - self.t0))
        if exit_code == 0 and problems:
            for p in problems:
                print("HARNESS-ERROR property=%s %s" % (self.pid, p))
            exit_code = 3
        sys.stdout.flush()
        sys.exit(exit_code)


def _top(it, n=8):
    return dict(collections.Counter(it).most_common(n))


def _jsonable(x):
    import math
    import numpy as np
    if isinstance(x, dict):
        return {str(k): _jsonable(v) for k, v in x.items()}
    if isinstance(x, (list, tuple, set, frozenset)):
        return [_jsonable(v) for v in x]
    if isinstance(x, np.ndarray):
        return _jsonable(x.tolist())
    if isinstance(x, np.generic):
        return _jsonable(x.item())
    if isinstance(x, float):
        if math.isinf(x) or math.isnan(x):
            return repr(x)
        return x
    if isinstance(x, (str, int, bool)) or x is None:
        return x
    if isinstance(x, slice):
        return "slice(%r,%r,%r)" % (x.start, x.stop, x.step)
    if x is Ellipsis:
        return "..."
    return repr(x)
