"""Named build schedules: how a Prog is pushed through funsor's interpretations (C03, C05, C08)."""
import contextlib

from harness.core import SideViolation


def immediate(prog, leaves):
    from lang.build import build
    return build(prog, leaves)


def _ctx(name):
    import funsor
    from funsor import interpretations as I
    if name == "lazy":
        return I.lazy
    if name == "reflect":
        return I.reflect
    if name == "normalize":
        return I.normalize
    if name == "eager":
        return I.eager
    if name == "sequential":
        return I.sequential
    if name == "moment_matching":
        return I.moment_matching
    if name == "memoize":
        return I.memoize()
    raise ValueError(name)


def deferred(*names):
    """build under the nested contexts `names` (outermost first), then reinterpret under eager"""
    def builder(prog, leaves):
        import funsor
        from lang.build import build
        with contextlib.ExitStack() as st:
            for n in names:
                st.enter_context(_ctx(n))
            t = build(prog, leaves)
        return funsor.reinterpret(t)
    builder.__name__ = "deferred(%s)" % ",".join(names)
    return builder


def direct(name):
    """evaluate directly under an exact interpretation"""
    def builder(prog, leaves):
        from lang.build import build
        with _ctx(name):
            return build(prog, leaves)
    builder.__name__ = "direct(%s)" % name
    return builder


def memo_twice(prog, leaves):
    """memoized evaluation: identical subexpressions -> identical object"""
    import funsor
    from funsor.interpretations import memoize
    from lang.build import build
    with memoize():
        a = build(prog, leaves)
        b = build(prog, leaves)
    if a is not b:
        raise SideViolation("MEMO-IDENTITY: memoized evaluation of the same expression returned two different objects")
    return a


def memo_deferred(prog, leaves):
    import funsor
    from funsor.interpretations import lazy, memoize
    from lang.build import build
    with lazy:
        t = build(prog, leaves)
    with memoize():
        a = funsor.reinterpret(t)
        b = funsor.reinterpret(t)
    if a is not b:
        raise SideViolation("MEMO-IDENTITY: memoized reinterpretation returned two different objects")
    return a


def optimizer(prog, leaves):
    from funsor.interpretations import lazy
    from funsor.optimizer import apply_optimizer
    from lang.build import build
    with lazy:
        t = build(prog, leaves)
    return apply_optimizer(t)


def normalize_then_eager(prog, leaves):
    import funsor
    from funsor.interpretations import normalize
    from lang.build import build
    with normalize:
        t = build(prog, leaves)
        t2 = funsor.reinterpret(t)
    if t2 is not t:
        raise SideViolation("NORMAL-FORM: normalising an already normalised term returned a different object")
    return funsor.reinterpret(t)


def lazy_normalize_eager(prog, leaves):
    import funsor
    from funsor.interpretations import lazy, normalize
    from lang.build import build
    with lazy:
        t = build(prog, leaves)
    with normalize:
        t = funsor.reinterpret(t)
    return funsor.reinterpret(t)


def unfold_then_eager(prog, leaves):
    import funsor
    from funsor.interpretations import lazy
    from funsor.optimizer import unfold
    from lang.build import build
    with lazy:
        t = build(prog, leaves)
    with unfold:
        t = funsor.reinterpret(t)
    return funsor.reinterpret(t)


def normalize_then_optimizer(prog, leaves):
    from funsor.interpretations import normalize
    from funsor.optimizer import apply_optimizer
    from lang.build import build
    with normalize:
        t = build(prog, leaves)
    return apply_optimizer(t)


def lazy_unfold_optimize(prog, leaves):
    import funsor
    from funsor.interpretations import lazy, normalize
    from funsor.optimizer import apply_optimizer
    from lang.build import build
    with lazy:
        t = build(prog, leaves)
    with normalize:
        t = funsor.reinterpret(t)
    return apply_optimizer(t)


SCHEDULES = {
    "immediate": immediate,
    "lazy": deferred("lazy"),
    "reflect": deferred("reflect"),
    "normalize": deferred("normalize"),
    "lazy>normalize": deferred("lazy", "normalize"),
    "normalize>lazy": deferred("normalize", "lazy"),
    "eager>lazy": deferred("eager", "lazy"),
    "lazy>eager": deferred("lazy", "eager"),
    "memoize>lazy": deferred("memoize", "lazy"),
    "lazy>memoize": deferred("lazy", "memoize"),
    "sequential": direct("sequential"),
    "moment_matching": direct("moment_matching"),
    "memo_twice": memo_twice,
    "memo_deferred": memo_deferred,
    "optimizer": optimizer,
    "normalize_idem": normalize_then_eager,
    "lazy_normalize_eager": lazy_normalize_eager,
    "unfold": unfold_then_eager,
    "normalize>optimizer": normalize_then_optimizer,
    "lazy>normalize>optimizer": lazy_unfold_optimize,
}
