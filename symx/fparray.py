"""Engine F — the real float kernels on IEEE-754 symbolic cells.

`FPArray` is an ndarray subclass (dtype=object) whose cells are `FV` objects wrapping z3 FloatingPoint(11, 53) terms.
funsor's log-space kernels (funsor.ops.logsumexp, funsor.einsum.numpy_log.einsum) run on them unmodified; the
comparison / subtraction / clamp part of the kernel (the stabilising shift) is encoded exactly in QF_FP, while
exp / log / sum / einsum of exponentials return OPAQUE cells.  Every call of exp is recorded with its argument cells,
so a harness can state the stability contract of the kernel ("no exp argument overflows, and in every reduction group
the largest exp argument stays near 0 unless the whole group is -inf") as a formula over all float64 inputs."""
import math

import numpy as np
import z3

F64 = z3.Float64()
RNE = z3.RNE()
EXP_LOG = []          # list of np.ndarray(object) of FV: the argument of every np.exp call, in call order


class FB:
    """symbolic boolean cell; used as a python condition it forks the path (engine.explore)"""
    __slots__ = ("b",)

    def __init__(self, b):
        self.b = b

    def __bool__(self):
        from . import engine
        return engine.fork(self.b)

    def __invert__(self):
        return FB(z3.Not(self.b))

    def __and__(self, o):
        return FB(z3.And(self.b, o.b if isinstance(o, FB) else z3.BoolVal(bool(o))))

    __rand__ = __and__

    def __or__(self, o):
        return FB(z3.Or(self.b, o.b if isinstance(o, FB) else z3.BoolVal(bool(o))))

    __ror__ = __or__


class FV:
    __slots__ = ("t",)

    def __init__(self, t):
        self.t = t                 # z3 FP term, or None for an opaque value (result of exp / log / sums of them)

    @staticmethod
    def lift(x):
        from .sv import FInfoConst
        if isinstance(x, FV):
            return x
        if isinstance(x, FInfoConst):
            return FV(z3.FPVal(-1.7976931348623157e308 if x.which == "min" else 1.7976931348623157e308, F64))
        if isinstance(x, (bool, np.bool_)):
            return FV(z3.FPVal(float(x), F64))
        if isinstance(x, (int, float, np.integer, np.floating)):
            return FV(z3.FPVal(float(x), F64))
        if isinstance(x, np.ndarray) and x.ndim == 0:
            return FV.lift(x.item())
        raise TypeError("cannot lift %r" % (x,))

    def _bin(self, o, f):
        o = FV.lift(o)
        if self.t is None or o.t is None:
            return FV(None)
        return FV(f(self.t, o.t))

    def __add__(self, o):
        return self._bin(o, lambda a, b: z3.fpAdd(RNE, a, b))

    __radd__ = __add__

    def __sub__(self, o):
        return self._bin(o, lambda a, b: z3.fpSub(RNE, a, b))

    def __rsub__(self, o):
        return FV.lift(o)._bin(self, lambda a, b: z3.fpSub(RNE, a, b))

    def __mul__(self, o):
        return self._bin(o, lambda a, b: z3.fpMul(RNE, a, b))

    __rmul__ = __mul__

    def __neg__(self):
        return FV(None if self.t is None else z3.fpNeg(self.t))

    def _cmp(self, o, f):
        o = FV.lift(o)
        if self.t is None or o.t is None:
            raise TypeError("comparison of an opaque value")
        return FB(f(self.t, o.t))

    def __lt__(self, o):
        return self._cmp(o, z3.fpLT)

    def __le__(self, o):
        return self._cmp(o, z3.fpLEQ)

    def __gt__(self, o):
        return self._cmp(o, z3.fpGT)

    def __ge__(self, o):
        return self._cmp(o, z3.fpGEQ)

    def __repr__(self):
        return "FV(%s)" % ("opaque" if self.t is None else z3.simplify(self.t))


def fv_max(a, b):        # np.maximum: NaN propagates
    a, b = FV.lift(a), FV.lift(b)
    if a.t is None or b.t is None:
        return FV(None)
    return FV(z3.If(z3.fpIsNaN(a.t), a.t, z3.If(z3.fpIsNaN(b.t), b.t, z3.If(z3.fpGT(b.t, a.t), b.t, a.t))))


def fv_min(a, b):
    a, b = FV.lift(a), FV.lift(b)
    if a.t is None or b.t is None:
        return FV(None)
    return FV(z3.If(z3.fpIsNaN(a.t), a.t, z3.If(z3.fpIsNaN(b.t), b.t, z3.If(z3.fpLT(b.t, a.t), b.t, a.t))))


def fv_isfinite(a):
    a = FV.lift(a)
    return FB(z3.And(z3.Not(z3.fpIsNaN(a.t)), z3.Not(z3.fpIsInf(a.t))))


def fv_where(c, a, b):
    a, b = FV.lift(a), FV.lift(b)
    if isinstance(c, (bool, np.bool_)):
        return a if c else b
    if a.t is None or b.t is None:
        return FV(None)
    return FV(z3.If(c.b, a.t, b.t))


def _opaque(*_):
    return FV(None)


def _plain(x):
    if isinstance(x, np.ndarray):
        return x.view(np.ndarray)
    return x


def _wrap(r):
    if isinstance(r, np.ndarray):
        if r.dtype != object:
            r = r.astype(object)
        return r.view(FPArray)
    a = np.empty((), dtype=object)
    a[()] = r
    return a.view(FPArray)


_UF = {
    np.add: lambda a, b: FV.lift(a) + b, np.subtract: lambda a, b: FV.lift(a) - b, np.multiply: lambda a, b: FV.lift(a) * b,
    np.negative: lambda a: -FV.lift(a), np.maximum: fv_max, np.minimum: fv_min, np.isfinite: fv_isfinite,
    np.logical_not: lambda a: ~a, np.logical_and: lambda a, b: a & b, np.logical_or: lambda a, b: a | b,
    np.isinf: lambda a: FB(z3.fpIsInf(FV.lift(a).t)), np.isnan: lambda a: FB(z3.fpIsNaN(FV.lift(a).t)),
    np.signbit: lambda a: FB(z3.fpIsNegative(FV.lift(a).t)), np.invert: lambda a: ~a,
    np.log: _opaque, np.true_divide: _opaque, np.sqrt: _opaque,
}


def _reduce(fn, arr, axis, keepdims):
    arr = _plain(arr)
    if axis is None:
        axes = tuple(range(arr.ndim))
    elif isinstance(axis, (tuple, list)):
        axes = tuple(a % arr.ndim for a in axis)
    else:
        axes = (axis % arr.ndim,)
    out = arr
    for ax in sorted(axes, reverse=True):
        cells = [np.take(out, i, axis=ax) for i in range(out.shape[ax])]
        acc = cells[0]
        for c in cells[1:]:
            acc = np.frompyfunc(fn, 2, 1)(acc, c)
        acc = np.asarray(acc, dtype=object)
        out = np.expand_dims(acc, ax) if keepdims else acc
    return _wrap(out)


class FPArray(np.ndarray):
    def __array_ufunc__(self, ufunc, method, *inputs, **kw):
        if kw.get("out") is not None:
            raise NotImplementedError("FPArray: in-place ufunc")
        ins = [_plain(x) for x in inputs]
        if method == "__call__":
            if ufunc is np.exp:
                arg = np.asarray(np.frompyfunc(FV.lift, 1, 1)(ins[0]), dtype=object)
                EXP_LOG.append(arg.copy())
                return _wrap(np.asarray(np.frompyfunc(_opaque, 1, 1)(arg), dtype=object))
            fn = _UF.get(ufunc)
            if fn is None:
                raise NotImplementedError("FPArray: ufunc %s" % ufunc.__name__)
            return _wrap(np.asarray(np.frompyfunc(fn, ufunc.nin, 1)(*ins), dtype=object))
        if method == "reduce":
            fn = {np.maximum: fv_max, np.minimum: fv_min, np.add: _opaque}.get(ufunc)
            if fn is None:
                raise NotImplementedError("FPArray: %s.reduce" % ufunc.__name__)
            return _reduce(fn, ins[0], kw.get("axis", 0), kw.get("keepdims", False))
        raise NotImplementedError("FPArray: ufunc method %s" % method)

    def __array_function__(self, func, types, args, kwargs):
        if func in (np.amax, np.max):
            a = args[0]
            axis = kwargs.get("axis", args[1] if len(args) > 1 else None)
            return _reduce(fv_max, a, axis, kwargs.get("keepdims", False))
        if func is np.sum:
            a = args[0]
            axis = kwargs.get("axis", args[1] if len(args) > 1 else None)
            return _reduce(_opaque, a, axis, kwargs.get("keepdims", False))
        if func in (np.all, np.any):
            cells = [c for c in _plain(args[0]).ravel()]
            if kwargs.get("axis", args[1] if len(args) > 1 else None) is not None:
                raise NotImplementedError("FPArray: all/any with an axis")
            bs = [c.b if isinstance(c, FB) else z3.BoolVal(bool(c)) for c in cells]
            return FB(z3.And(*bs) if func is np.all else z3.Or(*bs))
        if func in (np.zeros_like, np.ones_like):
            a = _plain(args[0])
            r = np.empty(a.shape, dtype=object)
            for i in np.ndindex(*a.shape):
                r[i] = FV(z3.FPVal(0.0 if func is np.zeros_like else 1.0, F64))
            return _wrap(r)
        if func is np.where:
            c, a, b = (_plain(x) for x in args)
            return _wrap(np.asarray(np.frompyfunc(fv_where, 3, 1)(c, a, b), dtype=object))
        if func is np.clip:
            x = _plain(args[0])
            lo = args[1] if len(args) > 1 else kwargs.get("a_min")
            hi = args[2] if len(args) > 2 else kwargs.get("a_max")
            if kwargs.get("out") is not None:
                raise NotImplementedError("FPArray: clip(out=)")
            r = x
            if lo is not None:
                r = np.frompyfunc(lambda v, l: _clip_lo(v, l), 2, 1)(r, _plain(lo) if isinstance(lo, np.ndarray) else _cell(lo))
            if hi is not None:
                r = np.frompyfunc(lambda v, h: _clip_hi(v, h), 2, 1)(r, _plain(hi) if isinstance(hi, np.ndarray) else _cell(hi))
            return _wrap(np.asarray(r, dtype=object))
        if func is np.einsum:
            eq = args[0]
            ops_ = args[1:]
            ins, outs = eq.split("->")
            sizes = {}
            for dims, o in zip(ins.split(","), ops_):
                for d, n in zip(dims, np.shape(o)):
                    sizes[d] = n
            r = np.empty(tuple(sizes[d] for d in outs), dtype=object)
            for i in np.ndindex(*r.shape):
                r[i] = FV(None)
            return _wrap(r)
        return super().__array_function__(func, types, args, kwargs)


def _cell(x):
    a = np.empty((), dtype=object)
    a[()] = x
    return a


def _clip_lo(v, lo):        # numpy clip: NaN in x propagates
    v, lo = FV.lift(v), FV.lift(lo)
    if v.t is None or lo.t is None:
        return FV(None)
    return FV(z3.If(z3.fpIsNaN(v.t), v.t, z3.If(z3.fpLT(v.t, lo.t), lo.t, v.t)))


def _clip_hi(v, hi):
    v, hi = FV.lift(v), FV.lift(hi)
    if v.t is None or hi.t is None:
        return FV(None)
    return FV(z3.If(z3.fpIsNaN(v.t), v.t, z3.If(z3.fpGT(v.t, hi.t), hi.t, v.t)))


def fp_array(name, shape):
    """fresh FP variables; returns (FPArray, ndarray of the z3 variables)"""
    a = np.empty(shape, dtype=object)
    vs = np.empty(shape, dtype=object)
    for i in np.ndindex(*shape):
        v = z3.FP("%s_%s" % (name, "_".join(map(str, i))), F64)
        vs[i] = v
        a[i] = FV(v)
    return a.view(FPArray), vs


def fpval(v):
    import struct
    if v.isNaN():
        return math.nan
    if v.isInf():
        return -math.inf if v.isNegative() else math.inf
    bv = z3.simplify(z3.fpToIEEEBV(v)).as_long()
    return struct.unpack("<d", struct.pack("<Q", bv))[0]
