"""Path-forking engine + solver helpers shared by Engine A (symbolic tensor cells) and Engine B (symbolic ints).

A *path context* records: the decisions taken at each symbolic branch (``bool()`` of a symbolic value), the
path condition, assumptions (carrier constraints), definedness conditions of partial operations and
axioms of uninterpreted functions.  ``explore(fn)`` re-executes ``fn`` depth-first over decision
prefixes (the technique CrossHair uses), asking z3 for the feasibility of each side of a branch.
"""
import os
import time
import z3

Z3_TIMEOUT_MS = 20000
# Deterministic budgets: a query's budget is a z3 resource limit proportional to its nominal timeout, so the verdict
# (decided / inconclusive) does not depend on machine load; the wall-clock timeout is only a backstop.
RLIMIT_PER_MS = int(os.environ.get("VERIF_RLIMIT_PER_MS", "0"))       # 0 = wall-clock budgets (default until calibrated)
WALL_BACKSTOP = 5
# Memory cap per query (z3's cooperative "max_memory", MB): nonlinear queries can otherwise grow to 10 GB per worker
# within a 60 s timeout; a query that hits the cap answers unknown and is reported inconclusive like a timeout.
MAXMEM_MB = int(os.environ.get("VERIF_Z3_MAXMEM_MB", "2000"))


def _budget(s, timeout_ms):
    t = timeout_ms or Z3_TIMEOUT_MS
    if MAXMEM_MB > 0:
        s.set("max_memory", MAXMEM_MB)
    if RLIMIT_PER_MS > 0:
        s.set("rlimit", int(t) * RLIMIT_PER_MS)
        s.set("timeout", int(t) * WALL_BACKSTOP)
    else:
        s.set("timeout", int(t))


class Unsupported(Exception):
    """the symbolic algebra / numpy model cannot express this operation (instance is skipped and counted)"""


class Abort(BaseException):
    """infeasible path / path cap; BaseException so that funsor's `except Exception` cannot swallow it"""


class PathCapExceeded(Exception):
    pass


NAN_TAGS = ("neg of -inf", "inf + -inf", "0 * -inf")


class Stats:
    def __init__(self):
        self.xcheck_agree = 0
        self.xcheck_disagree = 0
        self.xcheck_inconclusive = 0
        self.queries = 0
        self.solver_s = 0.0
        self.unsat = 0
        self.sat = 0
        self.unknown = 0
        self.paths = 0

    def merge(self, o):
        for k in vars(self):
            setattr(self, k, getattr(self, k) + getattr(o, k))

    def as_dict(self):
        d = dict(vars(self))
        d["solver_s"] = round(d["solver_s"], 3)
        return d


STATS = Stats()


class Ctx:
    def __init__(self, prefix=(), todo=None):
        self.prefix = list(prefix)
        self.taken = []
        self.pc = []          # path condition (list of z3 Bool)
        self.assume = []      # carrier constraints etc
        self.defined = []     # definedness conditions of partial ops: (z3 Bool, tag)
        self.axioms = {}      # key(str) -> z3 Bool   (facts about uninterpreted functions)
        self.todo = todo if todo is not None else []
        self.fresh = 0
        self.notes = []

    def hyps(self, with_defined=True):
        h = list(self.assume) + list(self.pc) + list(self.axioms.values())
        if with_defined:
            h += [c for c, t in self.defined if t not in NAN_TAGS]
        return h

    def must_prove(self):
        """definedness conditions whose failure means a NaN produced INSIDE the carrier (-inf - -inf, 0 * -inf):
        they are proved together with the goal, never assumed"""
        return [c for c, t in self.defined if t in NAN_TAGS]


CUR = Ctx()


def ctx():
    return CUR


def reset(prefix=(), todo=None):
    global CUR
    CUR = Ctx(prefix, todo)
    return CUR


def assume(cond):
    CUR.assume.append(cond)


def defined(cond, tag=""):
    if z3.is_true(cond):
        return
    CUR.defined.append((cond, tag))


def axiom(key, cond):
    CUR.axioms.setdefault(key, cond)


def fresh_name(base):
    CUR.fresh += 1
    return "%s!%d" % (base, CUR.fresh)


def _check(solver):
    t0 = time.time()
    r = solver.check()
    STATS.queries += 1
    STATS.solver_s += time.time() - t0
    return r


def feasible(conds, timeout_ms=None):
    s = z3.Solver()
    _budget(s, timeout_ms)
    s.add(*conds)
    r = _check(s)
    return r  # sat / unsat / unknown


def fork(cond):
    """Decide a symbolic boolean on the current path (both sides explored by `explore`)."""
    c = CUR
    cond = z3.simplify(cond)
    if z3.is_true(cond):
        return True
    if z3.is_false(cond):
        return False
    i = len(c.taken)
    if i < len(c.prefix):
        d = c.prefix[i]
    else:
        base = c.hyps()
        can_t = feasible(base + [cond]) != z3.unsat
        can_f = feasible(base + [z3.Not(cond)]) != z3.unsat
        if can_t and can_f:
            d = True
            c.todo.append(c.taken + [False])
        elif can_t:
            d = True
        elif can_f:
            d = False
        else:
            raise Abort("infeasible path")
    c.taken.append(d)
    c.pc.append(cond if d else z3.Not(cond))
    return d


class PathResult:
    __slots__ = ("ctx", "value", "exc")

    def __init__(self, ctx, value, exc):
        self.ctx, self.value, self.exc = ctx, value, exc


def explore(fn, max_paths=64, setup=None):
    """Run fn() on every feasible path.  Returns list of PathResult.  Raises PathCapExceeded beyond max_paths.
    `setup(ctx)` is called at the start of each path (to (re)declare carriers)."""
    global CUR
    todo = [[]]
    out = []
    while todo:
        prefix = todo.pop()
        c = reset(prefix, todo)
        if setup is not None:
            setup(c)
        try:
            v = fn()
            out.append(PathResult(c, v, None))
        except Abort:
            pass
        except Exception as e:  # noqa
            out.append(PathResult(c, None, e))
        STATS.paths += 1
        if len(out) + len(todo) > max_paths:
            raise PathCapExceeded(max_paths)
    return out


_XC = {"n": 0}


def _cross_check(solver, verdict):
    """second solver: every N-th decided query is exported with to_smt2() and re-decided by the cvc5 binary"""
    import os
    import subprocess
    import tempfile
    every = int(os.environ.get("VERIF_CROSSCHECK_EVERY", "0") or 0)
    if not every:
        return
    _XC["n"] += 1
    if _XC["n"] % every:
        return
    try:
        text = "(set-logic ALL)\n" + solver.to_smt2()
        with tempfile.NamedTemporaryFile("w", suffix=".smt2", delete=False, dir=os.environ.get("TMPDIR", "/tmp")) as f:
            f.write(text)
            path = f.name
        try:
            r = subprocess.run(["cvc5", "--tlimit=10000", "--nl-ext-tplanes", path], capture_output=True, text=True, timeout=30)
            out = (r.stdout + r.stderr).strip().splitlines()
        finally:
            os.remove(path)
        ans = out[0].strip() if out else ""
        if any("(error" in line for line in out) or ans not in ("sat", "unsat"):
            STATS.xcheck_inconclusive += 1
        elif ans == verdict:
            STATS.xcheck_agree += 1
        else:
            STATS.xcheck_disagree += 1
    except Exception:
        STATS.xcheck_inconclusive += 1


def check_valid(hyps, goal, timeout_ms=None):
    """Is `hyps |= goal` ?  returns (verdict, model|None, seconds); verdict in {'unsat','sat','unknown'} of hyps & !goal"""
    s = z3.Solver()
    _budget(s, timeout_ms)
    s.add(*hyps)
    s.add(z3.Not(goal))
    t0 = time.time()
    r = _check(s)
    dt = time.time() - t0
    if r in (z3.sat, z3.unsat):
        _cross_check(s, "sat" if r == z3.sat else "unsat")
    if r == z3.unsat:
        STATS.unsat += 1
        return "unsat", None, dt
    if r == z3.sat:
        STATS.sat += 1
        return "sat", s.model(), dt
    STATS.unknown += 1
    return "unknown", None, dt


def check_sat(conds, timeout_ms=None):
    s = z3.Solver()
    _budget(s, timeout_ms)
    s.add(*conds)
    r = _check(s)
    if r == z3.sat:
        STATS.sat += 1
        return "sat", s.model()
    if r == z3.unsat:
        STATS.unsat += 1
        return "unsat", None
    STATS.unknown += 1
    return "unknown", None


def to_smt2(hyps, goal):
    s = z3.Solver()
    s.add(*hyps)
    s.add(z3.Not(goal))
    return s.to_smt2()


def hyps_satisfiable(hyps, timeout_ms=3000):
    """reachability twin: are the hypotheses (carriers, definedness, path condition, axioms) satisfiable?
    Tries a few simple candidate assignments by evaluation before asking the solver."""
    hyps = list(hyps)
    vars_ = {}

    def collect(e, seen):
        if e.get_id() in seen:
            return
        seen.add(e.get_id())
        if z3.is_const(e) and e.decl().kind() == z3.Z3_OP_UNINTERPRETED:
            vars_[str(e)] = e
        for c in e.children():
            collect(c, seen)
    seen = set()
    for h in hyps:
        collect(h, seen)
    for rv, iv, bv in ((1, 0, True), (2, 1, False), ("1/2", 0, True)):
        sub = []
        for v in vars_.values():
            if v.sort() == z3.RealSort():
                sub.append((v, z3.RealVal(rv)))
            elif v.sort() == z3.IntSort():
                sub.append((v, z3.IntVal(iv)))
            elif v.sort() == z3.BoolSort():
                sub.append((v, z3.BoolVal(bv)))
        try:
            if all(z3.is_true(z3.simplify(z3.substitute(h, *sub))) for h in hyps):
                return "sat"
        except z3.Z3Exception:
            break
    s = z3.Solver()
    _budget(s, timeout_ms)
    s.add(*hyps)
    r = _check(s)
    return "sat" if r == z3.sat else "unsat" if r == z3.unsat else "n/a"
