"""Symbolic scalar `SV`: the cell type of Engine A's object arrays.

kinds
  real : value = l + log(p)   (l: z3 Real; p: z3 Real >= 0 or None meaning 1;  p == 0  IS  -inf)
  int  : z3 Int
  bool : z3 Bool
  pinf : the constant +inf  (only ever a constant injected by funsor itself: UNITS[min], finfo.max model)

The pair form makes the log semiring polynomial:  log p + log q = log(pq), logaddexp(log p, log q) = log(p+q).
Operations the algebra cannot express raise `Unsupported` (instance skipped & counted, never reported).
Partial operations record definedness conditions in the engine's path context.
"""
import math
import numbers
from fractions import Fraction

import numpy as np
import z3

from . import engine
from .engine import Unsupported

RS = z3.RealSort()
EXP = z3.Function("EXP", RS, RS)
_UF1 = {}
_UF2 = {}


def uf1(name):
    if name not in _UF1:
        _UF1[name] = z3.Function(name, RS, RS)
    return _UF1[name]


def uf2(name):
    if name not in _UF2:
        _UF2[name] = z3.Function(name, RS, RS, RS)
    return _UF2[name]


ZERO = z3.RealVal(0)
ONE = z3.RealVal(1)


def _rv(x):
    """exact z3 real of a python number"""
    if isinstance(x, (int, np.integer)):
        return z3.RealVal(int(x))
    fr = Fraction(float(x))
    return z3.RealVal(str(fr.numerator) + "/" + str(fr.denominator)) if fr.denominator != 1 else z3.RealVal(fr.numerator)


def _const(e):
    """concrete Fraction value of a z3 arithmetic expr if it is a numeral (after cheap simplify) else None"""
    if z3.is_int_value(e):
        return Fraction(e.as_long())
    if z3.is_rational_value(e):
        return e.as_fraction()
    s = z3.simplify(e)
    if z3.is_int_value(s):
        return Fraction(s.as_long())
    if z3.is_rational_value(s):
        return s.as_fraction()
    return None


def _same(a, b):
    if a.eq(b):
        return True
    return z3.simplify(a - b).eq(ZERO) if a.sort() == RS else z3.simplify(a - b).eq(z3.IntVal(0))


SHIFT_SYMS = {}


def shift_symbol(name):
    v = z3.Real(name)
    SHIFT_SYMS[name] = v
    return v


def _is_shift(e):
    return e is not None and z3.is_const(e) and e.decl().kind() == z3.Z3_OP_UNINTERPRETED and str(e) in SHIFT_SYMS


def _shift_factors(e):
    """list of shift symbols if the z3 term e is a product of shift symbols only, else None"""
    if e is None:
        return None
    if _is_shift(e):
        return [e]
    if z3.is_app(e) and e.decl().kind() == z3.Z3_OP_MUL:
        out = []
        for c in e.children():
            f = _shift_factors(c)
            if f is None:
                if z3.is_rational_value(c) and c.as_fraction() == 1:
                    continue
                return None
            out += f
        return out
    return None


def _den_expr(d):
    r = None
    for name, var, k in d:
        for _ in range(k):
            r = var if r is None else r * var
    return ONE if r is None else r


def _den_merge(d1, d2):
    if not d1:
        return d2
    if not d2:
        return d1
    m = {}
    for name, var, k in tuple(d1) + tuple(d2):
        if name in m:
            m[name] = (var, m[name][1] + k)
        else:
            m[name] = (var, k)
    return tuple(sorted((n, v, k) for n, (v, k) in m.items() if k > 0))


def _den_remove(d, name):
    """remove one power of `name` from d; returns (new_d, removed?)"""
    if not d:
        return d, False
    out, done = [], False
    for n, v, k in d:
        if n == name and not done:
            done = True
            if k > 1:
                out.append((n, v, k - 1))
        else:
            out.append((n, v, k))
    return (tuple(out) or None), done


def _den_lcm(d1, d2):
    m = {}
    for name, var, k in tuple(d1 or ()) + tuple(d2 or ()):
        if name in m:
            m[name] = (var, max(m[name][1], k))
        else:
            m[name] = (var, k)
    return tuple(sorted((n, v, k) for n, (v, k) in m.items()))


def _den_quot(big, small):
    """big / small as a z3 product (small divides big)"""
    sm = {n: k for n, v, k in (small or ())}
    r = None
    for n, v, k in big or ():
        for _ in range(k - sm.get(n, 0)):
            r = v if r is None else r * v
    return r


def _mul_opt(x, f):
    return x if f is None else x * f


class SV:
    __slots__ = ("k", "l", "p", "d")

    def __init__(self, k, l=None, p=None, d=None):
        # d: optional denominator, a monomial in SHIFT symbols ((name, z3var, power), ...) dividing p (log-kind) or
        # l (pure-linear kind).  It keeps the stabilising shifts of log-space code out of the z3 terms (no division).
        self.k, self.l, self.p, self.d = k, l, p, (d or None)

    def flat(self):
        """the same value with the denominator folded into the z3 term"""
        if self.d is None:
            return self
        den = _den_expr(self.d)
        if self.p is not None:
            return SV("real", self.l, self.p / den)
        return SV("real", self.l / den)

    # ---- constructors -------------------------------------------------------------------------
    @staticmethod
    def real(l, p=None):
        return SV("real", l, p)

    @staticmethod
    def logp(p):
        return SV("real", ZERO, p)

    @staticmethod
    def int(e):
        return SV("int", e)

    @staticmethod
    def bool(e):
        return SV("bool", e)

    @staticmethod
    def lift(x):
        if isinstance(x, SV):
            return x
        if isinstance(x, (bool, np.bool_)):
            return SV("bool", z3.BoolVal(bool(x)))
        if isinstance(x, (int, np.integer)):
            return SV("int", z3.IntVal(int(x)))
        if isinstance(x, (float, np.floating)):
            x = float(x)
            if x == -math.inf:
                return SV("real", ZERO, ZERO)
            if x == math.inf:
                return SV("pinf")
            if x != x:
                raise Unsupported("NaN constant")
            return SV("real", _rv(x))
        if isinstance(x, np.ndarray) and x.ndim == 0:
            return SV.lift(x.view(np.ndarray).item())
        if isinstance(x, FInfoConst):
            return x.as_sv()
        raise Unsupported("cannot lift %s" % type(x).__name__)

    # ---- views -------------------------------------------------------------------------------
    def is_const(self):
        if self.k == "pinf":
            return True
        if self.d is not None:
            return False
        if self.k == "bool":
            return z3.is_true(self.l) or z3.is_false(self.l)
        if self.k == "int":
            return _const(self.l) is not None
        return _const(self.l) is not None and (self.p is None or _const(self.p) is not None)

    def const_value(self):
        """python value of a constant SV (else None)"""
        if self.k == "pinf":
            return math.inf
        if self.d is not None:
            return None
        if self.k == "bool":
            s = z3.simplify(self.l)
            return True if z3.is_true(s) else False if z3.is_false(s) else None
        if self.k == "int":
            c = _const(self.l)
            return None if c is None else int(c)
        c = _const(self.l)
        if c is None:
            return None
        if self.p is None:
            return float(c) if c.denominator != 1 else float(int(c))
        pc = _const(self.p)
        if pc is None:
            return None
        if pc == 0:
            return -math.inf
        return float(c) + math.log(pc)

    def toreal(self):
        if self.k == "real" or self.k == "pinf":
            return self
        if self.k == "int":
            return SV("real", z3.ToReal(self.l))
        return SV("real", z3.If(self.l, ONE, ZERO))

    def toint(self):
        if self.k == "int":
            return self
        if self.k == "bool":
            return SV("int", z3.If(self.l, z3.IntVal(1), z3.IntVal(0)))
        raise Unsupported("real -> int")

    def tobool(self):
        if self.d is not None:
            return self.flat().tobool()
        if self.k == "bool":
            return self
        if self.k == "int":
            return SV("bool", self.l != 0)
        if self.k == "real":
            if self.p is None:
                return SV("bool", self.l != 0)
            raise Unsupported("truth value of log-kind")
        return SV("bool", z3.BoolVal(True))

    def P(self):
        return ONE if self.p is None else self.p

    def lin(self):
        """z3 Real of a pure-linear value (p == 1)"""
        s = self.toreal().flat()
        if s.k != "real" or s.p is not None:
            raise Unsupported("linear view of log-kind value")
        return s.l

    # ---- arithmetic ---------------------------------------------------------------------------
    @staticmethod
    def _arith2(a, b):
        a, b = SV.lift(a).flat(), SV.lift(b).flat()
        if a.k == "bool" and b.k == "bool":
            a, b = a.toint(), b.toint()
        if a.k == "bool":
            a = a.toint() if b.k == "int" else a.toreal()
        if b.k == "bool":
            b = b.toint() if a.k == "int" else b.toreal()
        if a.k == "int" and b.k == "int":
            return a, b, "int"
        return a.toreal(), b.toreal(), "real"

    def __add__(self, o):
        if isinstance(o, np.ndarray) and o.ndim > 0:
            return NotImplemented
        r = _den_add(self, o)
        if r is not None:
            return r
        a, b, k = SV._arith2(self, o)
        if k == "int":
            return SV("int", a.l + b.l)
        if a.k == "pinf" or b.k == "pinf":
            other = b if a.k == "pinf" else a
            if other.k == "real" and other.p is not None:
                engine.defined(other.p > 0, "inf + -inf")
            return SV("pinf")
        p = None if (a.p is None and b.p is None) else a.P() * b.P()
        return SV("real", a.l + b.l, p)

    __radd__ = __add__

    def __neg__(self):
        if self.k == "int":
            return SV("int", -self.l)
        if self.k == "real" and self.d is not None and self.p is None:
            return SV("real", -self.l, None, self.d)
        a = self.toreal().flat()
        if a.k == "pinf":
            return SV("real", ZERO, ZERO)
        if a.p is None:
            return SV("real", -a.l)
        c = _const(a.p)
        if c is not None and c == 0:
            return SV("pinf")
        engine.defined(a.p > 0, "neg of -inf")
        return SV("real", -a.l, 1 / a.p)

    def __pos__(self):
        return self

    def __sub__(self, o):
        if isinstance(o, np.ndarray) and o.ndim > 0:
            return NotImplemented
        r = _den_sub(self, o)
        if r is not None:
            return r
        a, b, k = SV._arith2(self, o)
        if k == "int":
            return SV("int", a.l - b.l)
        return a + (-b)

    def __rsub__(self, o):
        return SV.lift(o) - self

    def __mul__(self, o):
        if isinstance(o, np.ndarray) and o.ndim > 0:
            return NotImplemented
        r = _den_mul(self, o)
        if r is not None:
            return r
        a, b, k = SV._arith2(self, o)
        if k == "int":
            return SV("int", a.l * b.l)
        if a.k == "pinf" or b.k == "pinf":
            raise Unsupported("inf * x")
        if a.p is None and b.p is None:
            return SV("real", a.l * b.l)
        if a.p is not None and b.p is not None:
            raise Unsupported("log-kind * log-kind")
        lg, ln = (a, b) if a.p is not None else (b, a)
        c = _const(ln.l)
        if c is None:
            raise Unsupported("log-kind * symbolic")
        if c.denominator == 1 and c >= 1 and c <= 16:
            n = int(c)
            p = lg.p
            for _ in range(n - 1):
                p = p * lg.p
            return SV("real", lg.l * n, p)
        if c == 0:
            engine.defined(lg.p > 0, "0 * -inf")
            return SV("real", ZERO)
        if c == -1:
            return -lg
        raise Unsupported("log-kind * non-natural constant")

    __rmul__ = __mul__

    def __truediv__(self, o):
        if isinstance(o, np.ndarray) and o.ndim > 0:
            return NotImplemented
        a, b = SV.lift(self).toreal(), SV.lift(o).toreal()
        if a.k == "pinf" or b.k == "pinf":
            raise Unsupported("inf / x")
        if b.p is not None:
            raise Unsupported("x / log-kind")
        if a.p is not None:
            c = _const(b.l)
            if c is not None and c == 1:
                return a
            raise Unsupported("log-kind / x")
        c = _const(b.l)
        if c is None or c == 0:
            engine.defined(b.l != 0, "division by zero")
        return SV("real", a.l / b.l)

    def __rtruediv__(self, o):
        return SV.lift(o) / self

    @staticmethod
    def _pyfloordiv(a, b):
        # python floor division on z3 Ints (z3 div has non-negative remainder)
        return z3.If(b > 0, a / b, (-a) / (-b))

    def __floordiv__(self, o):
        if isinstance(o, np.ndarray) and o.ndim > 0:
            return NotImplemented
        a, b, k = SV._arith2(self, o)
        if k == "int":
            c = _const(b.l)
            if c is None or c == 0:
                engine.defined(b.l != 0, "floordiv by zero")
            if c is not None and c > 0:
                return SV("int", a.l / b.l)
            return SV("int", SV._pyfloordiv(a.l, b.l))
        if a.p is not None or b.p is not None or a.k == "pinf" or b.k == "pinf":
            raise Unsupported("floordiv of log-kind")
        engine.defined(b.l != 0, "floordiv by zero")
        return SV("real", z3.ToReal(z3.ToInt(a.l / b.l)))

    def __rfloordiv__(self, o):
        return SV.lift(o) // self

    def __mod__(self, o):
        if isinstance(o, np.ndarray) and o.ndim > 0:
            return NotImplemented
        a, b, k = SV._arith2(self, o)
        if k == "int":
            c = _const(b.l)
            if c is None or c == 0:
                engine.defined(b.l != 0, "mod by zero")
            if c is not None and c > 0:
                return SV("int", a.l % b.l)
            return SV("int", a.l - b.l * SV._pyfloordiv(a.l, b.l))
        if a.p is not None or b.p is not None or a.k == "pinf" or b.k == "pinf":
            raise Unsupported("mod of log-kind")
        engine.defined(b.l != 0, "mod by zero")
        return SV("real", a.l - b.l * z3.ToReal(z3.ToInt(a.l / b.l)))

    def __rmod__(self, o):
        return SV.lift(o) % self

    def __pow__(self, o):
        if isinstance(o, np.ndarray) and o.ndim > 0:
            return NotImplemented
        b = SV.lift(o)
        c = b.const_value() if b.is_const() else None
        if c is not None and float(c) == int(c) and 0 <= int(c) <= 12:
            n = int(c)
            if n == 0:
                return SV("int", z3.IntVal(1)) if self.k == "int" else SV("real", ONE)
            r = self
            for _ in range(n - 1):
                r = r * self
            return r
        a = self.toreal().flat()
        b = b.toreal().flat()
        if a.k == "pinf" or b.k == "pinf" or a.p is not None or b.p is not None:
            raise Unsupported("pow of log-kind")
        return SV("real", uf2("POW")(a.l, b.l))

    def __rpow__(self, o):
        return SV.lift(o) ** self

    def __abs__(self):
        if self.k == "int":
            return SV("int", z3.If(self.l >= 0, self.l, -self.l))
        a = self.toreal().flat()
        if a.k == "pinf":
            return a
        if a.p is not None:
            raise Unsupported("abs of log-kind")
        return SV("real", z3.If(a.l >= 0, a.l, -a.l))

    # ---- comparisons ----------------------------------------------------------------------------
    @staticmethod
    def _cmp(a, b, f):
        a, b = SV.lift(a).flat(), SV.lift(b).flat()
        if a.k == "bool" and b.k == "bool":
            a, b = a.toint(), b.toint()
        if a.k in ("int", "bool") and b.k in ("int", "bool"):
            return SV("bool", f(a.toint().l, b.toint().l))
        a, b = a.toreal(), b.toreal()
        if a.k == "pinf" or b.k == "pinf":
            if a.k == "pinf" and b.k == "pinf":
                return SV("bool", z3.BoolVal(bool(f(1, 1))))
            # +inf vs anything else (never +inf): strict order
            big_left = a.k == "pinf"
            return SV("bool", z3.BoolVal(bool(f(1, 0) if big_left else f(0, 1))))
        if a.p is None and b.p is None:
            return SV("bool", f(a.l, b.l))
        # a constant -inf against a pure linear value
        ca = _const(a.p) if a.p is not None else None
        cb = _const(b.p) if b.p is not None else None
        if ca is not None and ca == 0 and b.p is None:
            return SV("bool", z3.BoolVal(bool(f(0, 1))))
        if cb is not None and cb == 0 and a.p is None:
            return SV("bool", z3.BoolVal(bool(f(1, 0))))
        if _same(a.l, b.l):
            return SV("bool", f(a.P(), b.P()))
        # general: compare p*EXP(l)
        return SV("bool", f(a.P() * _exp_term(a.l), b.P() * _exp_term(b.l)))

    def __lt__(self, o):
        return SV._cmp(self, o, lambda x, y: x < y)

    def __le__(self, o):
        return SV._cmp(self, o, lambda x, y: x <= y)

    def __gt__(self, o):
        return SV._cmp(self, o, lambda x, y: x > y)

    def __ge__(self, o):
        return SV._cmp(self, o, lambda x, y: x >= y)

    def __eq__(self, o):
        if isinstance(o, np.ndarray) and o.ndim > 0:
            return NotImplemented
        try:
            return SV._cmp(self, o, lambda x, y: x == y)
        except Unsupported:
            if isinstance(o, (str, type(None), tuple)):
                return False
            raise

    def __ne__(self, o):
        if isinstance(o, np.ndarray) and o.ndim > 0:
            return NotImplemented
        try:
            return SV._cmp(self, o, lambda x, y: x != y)
        except Unsupported:
            if isinstance(o, (str, type(None), tuple)):
                return True
            raise

    __hash__ = object.__hash__

    # ---- boolean / bitwise ----------------------------------------------------------------------
    @staticmethod
    def _bit(a, b, fb, name):
        a, b = SV.lift(a), SV.lift(b)
        if a.k == "bool" and b.k == "bool":
            return SV("bool", fb(a.l, b.l))
        ca, cb = a.const_value() if a.is_const() else None, b.const_value() if b.is_const() else None
        if a.k in ("int", "bool") and b.k in ("int", "bool") and ca is not None and cb is not None:
            import operator
            return SV.lift(getattr(operator, name)(int(ca), int(cb)))
        raise Unsupported("bitwise %s on non-bool" % name)

    def __and__(self, o):
        return SV._bit(self, o, z3.And, "and_")

    __rand__ = __and__

    def __or__(self, o):
        return SV._bit(self, o, z3.Or, "or_")

    __ror__ = __or__

    def __xor__(self, o):
        return SV._bit(self, o, z3.Xor, "xor")

    __rxor__ = __xor__

    def __invert__(self):
        if self.k == "bool":
            return SV("bool", z3.Not(self.l))
        if self.k == "int":
            return SV("int", -self.l - 1)
        raise Unsupported("invert real")

    def __bool__(self):
        b = self.tobool()
        return engine.fork(b.l)

    def __float__(self):
        c = self.const_value() if self.is_const() else None
        if c is None:
            raise Unsupported("realisation float(SV)")
        return float(c)

    def __int__(self):
        c = self.const_value() if self.is_const() else None
        if c is None:
            raise Unsupported("realisation int(SV)")
        return int(c)

    def __index__(self):
        if self.k not in ("int", "bool"):
            raise TypeError("SV real used as index")
        c = self.const_value() if self.is_const() else None
        if c is None:
            raise Unsupported("realisation index(SV)")
        return int(c)

    def __repr__(self):
        if self.k == "pinf":
            return "SV(+inf)"
        if self.k == "real" and self.p is not None:
            return "SV(%s + log(%s))" % (self.l, self.p)
        return "SV<%s>(%s)" % (self.k, self.l)

    # ---- transcendental methods (numpy object loops call cell.exp() etc.) --------------------------
    def exp(self):
        a = self.toreal()
        if a.k == "pinf":
            return a
        if a.k == "real" and a.d is not None:
            if a.p is None:
                a = a.flat()
            else:
                c = _const(a.l)
                if c is not None and c == 0:
                    return SV("real", a.p, None, a.d)
                return SV("real", _exp_term(a.l) * a.p, None, a.d)
        c = _const(a.l)
        if a.p is None:
            if c is not None and c == 0:
                return SV("real", ONE)
            return SV("real", _exp_term(a.l))
        if c is not None and c == 0:
            return SV("real", a.p)
        return SV("real", _exp_term(a.l) * a.p)

    def log(self):
        if self.k == "bool":
            return SV("real", ZERO, z3.If(self.l, ONE, ZERO))
        a = self.toreal()
        if a.k == "pinf":
            return a
        if a.p is not None:
            raise Unsupported("log of log-kind")
        if a.d is not None:
            engine.defined(a.l >= 0, "log of negative")
            return SV("real", ZERO, a.l, a.d)
        if z3.is_app(a.l) and a.l.decl().eq(EXP):
            return SV("real", a.l.arg(0))
        c = _const(a.l)
        if c is None or c < 0:
            engine.defined(a.l >= 0, "log of negative")
        if c is not None and c == 1:
            return SV("real", ZERO)
        return SV("real", ZERO, a.l)

    def log1p(self):
        return (self + 1).log()

    def sqrt(self):
        a = self.toreal().flat()
        if a.k == "pinf":
            return a
        if a.p is not None:
            raise Unsupported("sqrt of log-kind")
        c = _const(a.l)
        if c is not None:
            r = Fraction(math.isqrt(c.numerator), 1) / Fraction(math.isqrt(c.denominator), 1) if c >= 0 else None
            if r is not None and r * r == c:
                return SV("real", z3.RealVal(str(r)))
        engine.defined(a.l >= 0, "sqrt of negative")
        t = uf1("SQRT")(a.l)
        engine.axiom("SQRT|" + a.l.sexpr(), z3.Implies(a.l >= 0, z3.And(t >= 0, t * t == a.l)))
        return SV("real", t)

    def _uf(self, name):
        a = self.toreal().flat()
        if a.k == "pinf" or a.p is not None:
            raise Unsupported("%s of log-kind" % name)
        return SV("real", uf1(name)(a.l))

    def tanh(self):
        return self._uf("TANH")

    def arctanh(self):
        return self._uf("ATANH")

    def lgamma(self):
        return self._uf("LGAMMA")

    def reciprocal(self):
        return 1 / self

    def conjugate(self):
        return self

    def isfinite(self):
        if self.d is not None:
            return self.flat().isfinite()
        if self.k == "pinf":
            return SV("bool", z3.BoolVal(False))
        if self.k == "real" and self.p is not None:
            return SV("bool", self.p > 0)
        return SV("bool", z3.BoolVal(True))


numbers.Number.register(SV)


def _has_den(x):
    return isinstance(x, SV) and x.k == "real" and x.d is not None


def _pure_shift(x):
    return isinstance(x, SV) and x.k == "real" and x.d is None and x.p is not None and _is_shift(x.p) and (_const(x.l) == 0)


def _den_add(a, b):
    """a + b keeping denominators symbolic; None if not applicable"""
    if not (_has_den(a) or _has_den(b)):
        return None
    try:
        a, b = SV.lift(a), SV.lift(b)
    except Unsupported:
        return None
    if a.k in ("int", "bool"):
        a = a.toreal()
    if b.k in ("int", "bool"):
        b = b.toreal()
    if a.k != "real" or b.k != "real":
        return None
    for x, y in ((a, b), (b, a)):      # adding an exact zero
        if y.d is None and y.p is None and _const(y.l) == 0:
            return x
    if a.p is None and b.p is None:                       # linear kinds: common denominator
        if a.d == b.d:
            return SV("real", a.l + b.l, None, a.d)
        L = _den_lcm(a.d, b.d)
        return SV("real", _mul_opt(a.l, _den_quot(L, a.d)) + _mul_opt(b.l, _den_quot(L, b.d)), None, L)
    if a.p is not None and b.p is not None:               # log kinds: p's multiply, shifts cancel
        d = _den_merge(a.d, b.d)
        parts = []
        for px in (a.p, b.p):
            fs = _shift_factors(px)
            if fs is None:
                parts.append(px)
                continue
            for f in fs:                       # cancel shift symbols against the denominator
                d2, removed = _den_remove(d, str(f))
                if removed:
                    d = d2
                else:
                    parts.append(f)
        p = None
        for x in parts:
            p = x if p is None else p * x
        return SV("real", a.l + b.l, ONE if p is None else p, d)
    # one log kind, one linear kind
    lg, ln = (a, b) if a.p is not None else (b, a)
    if ln.d is not None:
        ln = ln.flat()
    return SV("real", lg.l + ln.l, lg.p, lg.d)


def _den_sub(a, b):
    if not isinstance(a, SV):
        try:
            a = SV.lift(a)
        except Unsupported:
            return None
    if not isinstance(b, SV):
        return None
    if a.k not in ("real", "int", "bool") or b.k != "real":
        return None
    if _pure_shift(b):                                     # x - shift  ->  divide by the shift symbol
        a = a.toreal()
        if a.k != "real":
            return None
        engine.defined(b.p > 0, "neg of -inf")      # x - shift is NaN/+inf if the shift is -inf: proved, never assumed
        if a.p is not None and a.p.eq(b.p) and a.d is None:
            return SV("real", a.l)
        return SV("real", a.l, ONE if a.p is None else a.p, _den_merge(a.d, ((str(b.p), b.p, 1),)))
    if (_has_den(a) or _has_den(b)) and a.k == "real" and a.p is None and b.p is None:
        return _den_add(a, SV("real", -b.l, None, b.d))
    return None


def _den_mul(a, b):
    if not (_has_den(a) or _has_den(b)):
        return None
    try:
        a, b = SV.lift(a), SV.lift(b)
    except Unsupported:
        return None
    if a.k != "real" or b.k != "real":
        a2 = a.toreal() if a.k in ("int", "bool") else a
        b2 = b.toreal() if b.k in ("int", "bool") else b
        if a2.k != "real" or b2.k != "real":
            return None
        a, b = a2, b2
    if a.p is None and b.p is None:
        for x, y in ((a, b), (b, a)):
            c = _const(y.l) if y.d is None else None
            if c is not None and c == 1:
                return x
        return SV("real", a.l * b.l, None, _den_merge(a.d, b.d))
    return None


def _exp_term(l):
    """exp of a z3 Real term, normalised so that the homomorphism laws hold by construction:
    exp(0)=1, exp(a+b)=exp(a)exp(b), exp(k*a)=exp(a)^k (integer k), exp(If(c,a,b))=If(c,exp(a),exp(b));
    anything else is an application of the uninterpreted EXP with the axiom EXP(t) > 0."""
    return _exp_norm(z3.simplify(l), 0)


def _exp_norm(s, depth):
    c = _const(s) if (z3.is_rational_value(s) or z3.is_int_value(s)) else None
    if c is not None:
        if c == 0:
            return ONE
        # float constants that are logs of small rationals (e.g. math.log(3) injected by funsor) are exact
        try:
            ev = math.exp(float(c))
            for d in range(1, 13):
                n = round(ev * d)
                if 0 < n <= 4096 and abs(ev * d - n) < 1e-12 * max(1.0, ev * d):
                    return z3.RealVal(n) / z3.RealVal(d) if d != 1 else z3.RealVal(n)
        except OverflowError:
            pass
        t = EXP(s)
        engine.axiom("EXP|" + s.sexpr(), t > 0)
        if c > 0:
            engine.axiom("EXP>1|" + s.sexpr(), t > 1)
        else:
            engine.axiom("EXP<1|" + s.sexpr(), t < 1)
        return t
    if depth < 12 and z3.is_app(s):
        k = s.decl().kind()
        if k == z3.Z3_OP_ITE:
            return z3.If(s.arg(0), _exp_norm(s.arg(1), depth + 1), _exp_norm(s.arg(2), depth + 1))
        if k == z3.Z3_OP_ADD:
            r = None
            for a in s.children():
                e = _exp_norm(a, depth + 1)
                r = e if r is None else r * e
            return r
        if k == z3.Z3_OP_UMINUS:
            return 1 / _exp_norm(s.arg(0), depth + 1)
        if k == z3.Z3_OP_MUL and s.num_args() == 2:
            a, b = s.arg(0), s.arg(1)
            ca = _const(a) if (z3.is_rational_value(a) or z3.is_int_value(a)) else None
            if ca is not None and ca.denominator == 1 and abs(ca) <= 8:
                e = _exp_norm(b, depth + 1)
                n = abs(int(ca))
                r = e
                for _ in range(n - 1):
                    r = r * e
                return r if ca > 0 else 1 / r
    t = EXP(s)
    engine.axiom("EXP|" + s.sexpr(), t > 0)
    return t


# ---- functions used by the numpy model -------------------------------------------------------------

def sv_max(a, b):
    return _maxmin(a, b, True)


def sv_min(a, b):
    return _maxmin(a, b, False)


def _maxmin(a, b, is_max):
    a, b = SV.lift(a).flat(), SV.lift(b).flat()
    if a.k == "bool" and b.k == "bool":
        return SV("bool", z3.Or(a.l, b.l) if is_max else z3.And(a.l, b.l))
    if a.k in ("int", "bool") and b.k in ("int", "bool"):
        x, y = a.toint().l, b.toint().l
        return SV("int", z3.If((x >= y) if is_max else (x <= y), x, y))
    a, b = a.toreal(), b.toreal()
    if a.k == "pinf" or b.k == "pinf":
        other = b if a.k == "pinf" else a
        return SV("pinf") if is_max else other
    if a.p is None and b.p is None:
        return SV("real", z3.If((a.l >= b.l) if is_max else (a.l <= b.l), a.l, b.l))
    ca = _const(a.p) if a.p is not None else None
    cb = _const(b.p) if b.p is not None else None
    if ca is not None and ca == 0:   # a is the constant -inf
        return b if is_max else a
    if cb is not None and cb == 0:
        return a if is_max else b
    if _same(a.l, b.l):
        pa, pb = a.P(), b.P()
        return SV("real", a.l, z3.If((pa >= pb) if is_max else (pa <= pb), pa, pb))
    # general case through EXP (monotone): pick by comparing p*EXP(l)
    ta, tb = a.P() * _exp_term(a.l), b.P() * _exp_term(b.l)
    c = (ta >= tb) if is_max else (ta <= tb)
    return SV("real", z3.If(c, a.l, b.l), z3.If(c, a.P(), b.P()))


def sv_where(c, a, b):
    c = SV.lift(c).tobool()
    a, b = SV.lift(a).flat(), SV.lift(b).flat()
    cc = c.const_value() if c.is_const() else None
    if cc is not None:
        return a if cc else b
    if a.k == "bool" and b.k == "bool":
        return SV("bool", z3.If(c.l, a.l, b.l))
    if a.k in ("int", "bool") and b.k in ("int", "bool"):
        return SV("int", z3.If(c.l, a.toint().l, b.toint().l))
    a, b = a.toreal(), b.toreal()
    if a.k == "pinf" or b.k == "pinf":
        raise Unsupported("where with +inf branch")
    p = None if (a.p is None and b.p is None) else z3.If(c.l, a.P(), b.P())
    return SV("real", z3.If(c.l, a.l, b.l), p)


def sv_logaddexp(a, b):
    """oracle-side log-space addition"""
    a, b = SV.lift(a).toreal().flat(), SV.lift(b).toreal().flat()
    if _same(a.l, b.l):
        return SV("real", a.l, a.P() + b.P())
    return SV("real", ZERO, a.P() * _exp_term(a.l) + b.P() * _exp_term(b.l))


def sv_eq_formula(a, b):
    """z3 Bool: the two SVs denote the same value (sound; complete when the `l` parts agree syntactically).
    Polynomial identities are discharged syntactically (sum-of-monomials normal form) before reaching the solver."""
    f = _sv_eq_formula(a, b)
    if z3.is_eq(f) and f.arg(0).sort() == RS:
        try:
            if z3.simplify(f.arg(0) - f.arg(1), som=True).eq(ZERO):
                return z3.BoolVal(True)
        except z3.Z3Exception:
            pass
    return f


def _sv_eq_formula(a, b):
    a, b = SV.lift(a), SV.lift(b)
    if (a.k == "real" and a.d is not None) or (b.k == "real" and b.d is not None):
        a2, b2 = a.toreal(), b.toreal()
        if a2.k == "real" and b2.k == "real" and _same(a2.l, b2.l) if (a2.p is not None or b2.p is not None) else (a2.k == "real" and b2.k == "real"):
            # cross-multiply the (positive) denominators: no division in the query
            na = a2.p if a2.p is not None else (a2.l if b2.p is None else ONE)
            nb = b2.p if b2.p is not None else (b2.l if a2.p is None else ONE)
            if (a2.p is None) == (b2.p is None):
                L = _den_lcm(a2.d, b2.d)
                return _mul_opt(na, _den_quot(L, a2.d)) == _mul_opt(nb, _den_quot(L, b2.d))
        a, b = a.flat(), b.flat()
    if a.k == "bool" or b.k == "bool":
        if a.k == "bool" and b.k == "bool":
            return a.l == b.l
        a, b = (a.toint(), b.toint()) if "int" in (a.k, b.k) else (a.toreal(), b.toreal())
    if a.k == "int" and b.k == "int":
        return a.l == b.l
    a, b = a.toreal(), b.toreal()
    if a.k == "pinf" or b.k == "pinf":
        return z3.BoolVal(a.k == b.k)
    if a.p is None and b.p is None:
        return a.l == b.l
    if _same(a.l, b.l):
        return a.P() == b.P()
    return z3.Or(z3.And(a.P() == 0, b.P() == 0),
                 z3.And(a.l == b.l, a.P() == b.P()),
                 a.P() * _exp_term(a.l) == b.P() * _exp_term(b.l))


def sv_eval(sv, model):
    """concrete python float/int/bool value of an SV under a z3 model (model completion on)"""
    def ev(e):
        return model.eval(e, model_completion=True)
    if sv.k == "pinf":
        return math.inf
    if sv.k == "real" and sv.d is not None:
        sv = sv.flat()
    if sv.k == "bool":
        return z3.is_true(ev(sv.l))
    if sv.k == "int":
        return ev(sv.l).as_long()
    l = _num(ev(sv.l))
    if sv.p is None:
        return l
    p = _num(ev(sv.p))
    if p <= 0:
        return -math.inf
    return l + math.log(p)


def _num(v):
    if z3.is_int_value(v):
        return float(v.as_long())
    if z3.is_rational_value(v):
        fr = v.as_fraction()
        return float(fr)
    if z3.is_algebraic_value(v):
        return float(v.approx(20).as_fraction())
    raise Unsupported("non numeric model value %s" % v)


class FInfoConst:
    """np.finfo(object).min / .max stand-ins: context dependent constants.
    min: the most negative finite float.  In log-kind context it is log(eps) with eps > 0 otherwise unconstrained;
         against pure-linear finite reals it behaves as a lower bound of every value.
    max: dual."""

    def __init__(self, which):
        self.which = which

    def as_sv(self):
        eps = z3.Real("FINFO_EPS")
        engine.axiom("FINFO_EPS", eps > 0)
        if self.which == "min":
            return SV("real", ZERO, eps)
        return SV("pinf")

    def __neg__(self):
        return FInfoConst("max" if self.which == "min" else "min")

    def __repr__(self):
        return "finfo.%s" % self.which

    def _cmp(self, o, f):
        # f(self_rank, other_rank) on an abstract order: -inf=0 < finfo.min=1 < finite=2 < finfo.max=3 < +inf=4
        me = 1 if self.which == "min" else 3
        if isinstance(o, FInfoConst):
            return f(me, 1 if o.which == "min" else 3)
        if isinstance(o, (int, float, np.integer, np.floating)) and not isinstance(o, SV):
            o = float(o)
            return f(me, 0 if o == -math.inf else 4 if o == math.inf else 2)
        o = SV.lift(o).toreal()
        if o.k == "pinf":
            return f(me, 4)
        if o.p is None:
            return f(me, 2)
        if self.which == "max":
            return SV("bool", z3.BoolVal(bool(f(3, 2))))
        return SV._cmp(self.as_sv(), o, lambda x, y: f(x, y))

    def __lt__(self, o):
        return self._cmp(o, lambda x, y: x < y)

    def __le__(self, o):
        return self._cmp(o, lambda x, y: x <= y)

    def __gt__(self, o):
        return self._cmp(o, lambda x, y: x > y)

    def __ge__(self, o):
        return self._cmp(o, lambda x, y: x >= y)


def finfo_clip_lo(x, lo):
    """max(x, finfo.min)"""
    x = SV.lift(x).toreal()
    if x.k == "real" and x.d is None and _is_shift(x.p):
        # clamping a let-bound shift: bind the exact clamped value to a new symbol (known to be positive)
        eps = lo.as_sv().p
        m2 = shift_symbol(engine.fresh_name("shift"))
        engine.axiom("shift|%s" % m2, z3.And(m2 == z3.If(x.p >= eps, x.p, eps), m2 > 0))
        return SV("real", x.l, m2)
    if x.k == "pinf" or x.p is None:
        return x          # finite reals are >= finfo.min
    return sv_max(x, lo.as_sv())
