"""Engine B: `SymInt(int)` — Python ints whose operators build z3 Int terms and whose comparisons fork the path
(shared engine).  The REAL funsor bytecode runs on them; `isinstance(x, int)` holds.  Any C-level consumption
(`hash`, `__index__`, range(), slicing) raises: the container has to be stubbed.  The C-visible payload is a poison
value so that a silent leak is caught by the replay cross-check."""
import z3

from . import engine
from .engine import Abort, Unsupported

POISON = 424242


class SymBool:
    __slots__ = ("e",)

    def __init__(self, e):
        self.e = e

    def __bool__(self):
        return engine.fork(self.e)

    def __and__(self, o):
        return SymBool(z3.And(self.e, _b(o)))

    __rand__ = __and__

    def __or__(self, o):
        return SymBool(z3.Or(self.e, _b(o)))

    __ror__ = __or__

    def __invert__(self):
        return SymBool(z3.Not(self.e))

    def __repr__(self):
        return "SymBool(%s)" % self.e


def _b(x):
    if isinstance(x, SymBool):
        return x.e
    return z3.BoolVal(bool(x))


def _e(x):
    if isinstance(x, SymInt):
        return x.e
    if isinstance(x, bool):
        return z3.IntVal(int(x))
    if isinstance(x, int):
        return z3.IntVal(int.__int__(x))
    raise TypeError("SymInt arithmetic with %s" % type(x).__name__)


def _pydiv(a, b):
    """Python floor division on z3 Ints for b != 0"""
    return z3.If(b > 0, a / b, (-a) / (-b))


class SymInt(int):
    def __new__(cls, e):
        if isinstance(e, SymInt):
            return e
        if isinstance(e, int):
            e = z3.IntVal(int(e))
        o = int.__new__(cls, POISON)
        o.e = e
        return o

    def _wrap(s, e):
        return SymInt(e)

    def __add__(s, o):
        if not isinstance(o, int):
            return NotImplemented
        return SymInt(s.e + _e(o))

    __radd__ = __add__

    def __sub__(s, o):
        if not isinstance(o, int):
            return NotImplemented
        return SymInt(s.e - _e(o))

    def __rsub__(s, o):
        return SymInt(_e(o) - s.e)

    def __mul__(s, o):
        if not isinstance(o, int):
            return NotImplemented
        return SymInt(s.e * _e(o))

    __rmul__ = __mul__

    def __neg__(s):
        return SymInt(-s.e)

    def __pos__(s):
        return s

    def __abs__(s):
        return SymInt(z3.If(s.e >= 0, s.e, -s.e))

    def __floordiv__(s, o):
        b = _e(o)
        if engine.fork(b == 0):
            raise ZeroDivisionError("integer division or modulo by zero")
        return SymInt(_pydiv(s.e, b))

    def __rfloordiv__(s, o):
        if engine.fork(s.e == 0):
            raise ZeroDivisionError("integer division or modulo by zero")
        return SymInt(_pydiv(_e(o), s.e))

    def __mod__(s, o):
        b = _e(o)
        if engine.fork(b == 0):
            raise ZeroDivisionError("integer division or modulo by zero")
        return SymInt(s.e - b * _pydiv(s.e, b))

    def __rmod__(s, o):
        a = _e(o)
        if engine.fork(s.e == 0):
            raise ZeroDivisionError("integer division or modulo by zero")
        return SymInt(a - s.e * _pydiv(a, s.e))

    def __pow__(s, o, mod=None):
        if isinstance(o, SymInt):
            raise Unsupported("symbolic exponent")
        n = int(o)
        if n < 0 or n > 8:
            raise Unsupported("exponent out of range")
        r = z3.IntVal(1)
        for _ in range(n):
            r = r * s.e
        return SymInt(r)

    def __rpow__(s, o):
        raise Unsupported("symbolic exponent")

    def __lt__(s, o):
        return SymBool(s.e < _e(o))

    def __le__(s, o):
        return SymBool(s.e <= _e(o))

    def __gt__(s, o):
        return SymBool(s.e > _e(o))

    def __ge__(s, o):
        return SymBool(s.e >= _e(o))

    def __eq__(s, o):
        if not isinstance(o, int):
            return False          # e.g. dtype == "real"
        return SymBool(s.e == _e(o))

    def __ne__(s, o):
        if not isinstance(o, int):
            return True
        return SymBool(s.e != _e(o))

    def __bool__(s):
        return engine.fork(s.e != 0)

    def __hash__(s):
        raise Unsupported("symbolic int hashed: stub the container")

    def __index__(s):
        raise Unsupported("symbolic int realised (__index__)")

    def __int__(s):
        return s

    def __float__(s):
        raise Unsupported("symbolic int realised (float)")

    def __repr__(s):
        return "SymInt(%s)" % s.e

    __str__ = __repr__


def sym_int(name, lo=None, hi=None):
    v = z3.Int(name)
    if lo is not None:
        engine.assume(v >= lo)
    if hi is not None:
        engine.assume(v <= hi)
    return SymInt(v)


def ival(x):
    """z3 Int term of a (possibly symbolic) int"""
    return _e(x)


def sym_min(*xs):
    r = xs[0]
    for x in xs[1:]:
        r = SymInt(z3.If(_e(x) < _e(r), _e(x), _e(r)))
    return r


def sym_max(*xs):
    r = xs[0]
    for x in xs[1:]:
        r = SymInt(z3.If(_e(x) > _e(r), _e(x), _e(r)))
    return r


def model_int(model, x):
    if isinstance(x, SymInt):
        return model.eval(x.e, model_completion=True).as_long()
    return int(x)
