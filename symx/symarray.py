"""SymArray: numpy object arrays of SV cells with symbolic semantics for the data-dependent numpy entry points.

Structural numpy operations (reshape, transpose, broadcast, concatenate, advanced indexing with concrete
indices, einsum, ...) are delegated to numpy's real C code.  This module is the *environment model* of
Engine A (numpy is the FFI boundary; the code under test is funsor).
"""
import itertools
import math

import numpy as np
import z3

from . import engine
from .engine import Unsupported
from .sv import SV, FInfoConst, sv_max, sv_min, sv_where, finfo_clip_lo


def _lift(x):
    return SV.lift(x)


def _u1(f):
    return lambda a: f(_lift(a))


def _u2(f):
    return lambda a, b: f(_lift(a), _lift(b))


def _land(a, b):
    a, b = _lift(a).tobool(), _lift(b).tobool()
    return SV("bool", z3.And(a.l, b.l))


def _lor(a, b):
    a, b = _lift(a).tobool(), _lift(b).tobool()
    return SV("bool", z3.Or(a.l, b.l))


def _lxor(a, b):
    a, b = _lift(a).tobool(), _lift(b).tobool()
    return SV("bool", z3.Xor(a.l, b.l))


def _lnot(a):
    return SV("bool", z3.Not(_lift(a).tobool().l))


def _sign(a):
    a = _lift(a)
    if a.k == "int":
        return SV("int", z3.If(a.l > 0, 1, z3.If(a.l < 0, -1, 0)))
    l = a.lin()
    return SV("real", z3.If(l > 0, z3.RealVal(1), z3.If(l < 0, z3.RealVal(-1), z3.RealVal(0))))


def _square(a):
    a = _lift(a)
    return a * a


UFUNCS = {
    np.add: (_u2(lambda a, b: a + b), 2, 0),
    np.subtract: (_u2(lambda a, b: a - b), 2, None),
    np.multiply: (_u2(lambda a, b: a * b), 2, 1),
    np.true_divide: (_u2(lambda a, b: a / b), 2, None),
    np.floor_divide: (_u2(lambda a, b: a // b), 2, None),
    np.remainder: (_u2(lambda a, b: a % b), 2, None),
    np.power: (_u2(lambda a, b: a ** b), 2, None),
    np.negative: (_u1(lambda a: -a), 1, None),
    np.positive: (_u1(lambda a: a), 1, None),
    np.absolute: (_u1(abs), 1, None),
    np.maximum: (sv_max, 2, None),
    np.minimum: (sv_min, 2, None),
    np.exp: (_u1(lambda a: a.exp()), 1, None),
    np.log: (_u1(lambda a: a.log()), 1, None),
    np.log1p: (_u1(lambda a: a.log1p()), 1, None),
    np.sqrt: (_u1(lambda a: a.sqrt()), 1, None),
    np.tanh: (_u1(lambda a: a.tanh()), 1, None),
    np.arctanh: (_u1(lambda a: a.arctanh()), 1, None),
    np.reciprocal: (_u1(lambda a: 1 / a.toreal()), 1, None),
    np.square: (_square, 1, None),
    np.sign: (_sign, 1, None),
    np.equal: (_u2(lambda a, b: a == b), 2, None),
    np.not_equal: (_u2(lambda a, b: a != b), 2, None),
    np.less: (_u2(lambda a, b: a < b), 2, None),
    np.less_equal: (_u2(lambda a, b: a <= b), 2, None),
    np.greater: (_u2(lambda a, b: a > b), 2, None),
    np.greater_equal: (_u2(lambda a, b: a >= b), 2, None),
    np.logical_and: (_land, 2, True),
    np.logical_or: (_lor, 2, False),
    np.logical_xor: (_lxor, 2, False),
    np.logical_not: (_lnot, 1, None),
    np.bitwise_and: (_u2(lambda a, b: a & b), 2, None),
    np.bitwise_or: (_u2(lambda a, b: a | b), 2, None),
    np.bitwise_xor: (_u2(lambda a, b: a ^ b), 2, None),
    np.invert: (_u1(lambda a: ~a), 1, None),
    np.isfinite: (_u1(lambda a: a.isfinite()), 1, None),
    np.isnan: (_u1(lambda a: SV("bool", z3.BoolVal(False))), 1, None),
    # isinf / signbit: np.isposinf and np.isneginf are composed of these by numpy's own implementation
    # (the model has no NaN and no -0.0: NaN-class definedness is a separate proof obligation)
    np.isinf: (_u1(lambda a: ~SV.lift(a).isfinite()), 1, None),
    np.signbit: (_u1(lambda a: SV.lift(a) < 0), 1, None),
    np.conjugate: (_u1(lambda a: a), 1, None),
}
_PYF = {}


def _pyf(ufunc):
    if ufunc not in _PYF:
        fn, nin, ident = UFUNCS[ufunc]
        if ident is None:
            _PYF[ufunc] = np.frompyfunc(fn, nin, 1)
        else:
            _PYF[ufunc] = np.frompyfunc(fn, nin, 1, identity=ident)
    return _PYF[ufunc]


def wrap(r):
    """re-wrap a numpy result as SymArray (0-d for bare cells)"""
    if isinstance(r, SymArray):
        return r
    if isinstance(r, np.ndarray):
        if r.dtype == object:
            return r.view(SymArray)
        return r
    if isinstance(r, SV):
        a = np.empty((), dtype=object)
        a[()] = r
        return a.view(SymArray)
    if isinstance(r, tuple):
        return tuple(wrap(x) for x in r)
    if isinstance(r, list):
        return [wrap(x) for x in r]
    return r


def strip(x):
    if isinstance(x, SymArray):
        return x.view(np.ndarray)
    if isinstance(x, (list, tuple)):
        return type(x)(strip(y) for y in x)
    return x


def as_obj(x):
    """plain object ndarray view of anything array-like"""
    if isinstance(x, np.ndarray):
        x = x.view(np.ndarray)
        return x if x.dtype == object else x.astype(object)
    a = np.empty((), dtype=object)
    a[()] = x
    return a


def cells(x):
    return [SV.lift(c) for c in as_obj(x).ravel()]


def from_cells(cs, shape):
    a = np.empty(len(cs), dtype=object)
    for i, c in enumerate(cs):
        a[i] = c
    return a.reshape(shape).view(SymArray)


def map_cells(f, *arrs):
    arrs = [as_obj(a) for a in arrs]
    b = np.broadcast_arrays(*arrs) if len(arrs) > 1 else arrs
    out = np.empty(b[0].shape, dtype=object)
    for idx in np.ndindex(*b[0].shape):
        out[idx] = f(*[x[idx] for x in b])
    return out.view(SymArray)


class SymArray(np.ndarray):
    def __array_ufunc__(self, ufunc, method, *inputs, out=None, **kwargs):
        if out is not None:
            raise Unsupported("ufunc out=")
        if ufunc is np.maximum and any(isinstance(x, DetachedSymArray) for x in inputs):
            r = SymArray.__array_ufunc__(self.view(SymArray), ufunc, method, *[x.view(SymArray) if isinstance(x, DetachedSymArray) else x for x in inputs], **kwargs)
            return _abstract_shift(r)
        if ufunc is np.matmul and method == "__call__":
            a, b = [as_obj(x) for x in inputs]
            return wrap(_matmul(a, b))
        if ufunc not in UFUNCS:
            raise Unsupported("ufunc %s" % ufunc.__name__)
        f = _pyf(ufunc)
        raw = [x.view(np.ndarray) if isinstance(x, np.ndarray) else x for x in inputs]
        kwargs.pop("dtype", None)
        kwargs.pop("casting", None)
        kwargs.pop("subok", None)
        if method == "__call__":
            kwargs.pop("where", None)
            r = f(*raw, **kwargs)
        elif method == "reduce":
            if kwargs.get("where", True) is True:
                kwargs.pop("where", None)
            (a,) = raw
            a = as_obj(a)
            if a.size == 0 or any(a.shape[ax] == 0 for ax in _axes(kwargs.get("axis", None), a.ndim)):
                if UFUNCS[ufunc][2] is None and "initial" not in kwargs:
                    raise ValueError("zero-size array to reduction operation %s which has no identity" % ufunc.__name__)
            if kwargs.get("initial", None) is None:
                kwargs.pop("initial", None)
            axes = _axes(kwargs.get("axis", 0), a.ndim) if a.ndim else ()
            if len(axes) > 1:
                # frompyfunc reductions take one axis at a time
                kd = kwargs.pop("keepdims", False)
                kwargs.pop("axis", None)
                r = a
                for ax in sorted(axes, reverse=True):
                    r = f.reduce(r, axis=ax, keepdims=True, **kwargs)
                    kwargs.pop("initial", None)
                if not kd:
                    r = r.reshape(tuple(n for i, n in enumerate(r.shape) if i not in axes))
            elif a.ndim == 0:
                r = a
            else:
                r = f.reduce(a, **kwargs)
        elif method == "accumulate":
            r = f.accumulate(as_obj(raw[0]), **kwargs)
        elif method == "at":
            a, idx, b = inputs
            _ufunc_at(UFUNCS[ufunc][0], a, idx, b)
            return None
        else:
            raise Unsupported("ufunc method %s" % method)
        if not isinstance(r, np.ndarray):
            r = as_obj(SV.lift(r))
        return r.view(SymArray)

    def __array_function__(self, func, types, args, kwargs):
        h = FUNCS.get(func)
        if h is not None:
            return h(*args, **kwargs)
        if getattr(func, "__module__", "").startswith("numpy.linalg"):
            raise Unsupported("np.linalg.%s" % func.__name__)
        impl = getattr(func, "_implementation", None)
        if impl is None:
            raise Unsupported("numpy function %s" % func)
        try:
            r = impl(*args, **kwargs)
        except TypeError:
            r = impl(*strip(args), **{k: strip(v) for k, v in kwargs.items()})
        return wrap(r)

    def __getitem__(self, idx):
        if _has_sym_index(idx):
            return _sym_getitem(self, idx)
        idx = _concretize_index(idx)
        r = np.ndarray.__getitem__(self, idx)
        if not isinstance(r, np.ndarray):
            return wrap(SV.lift(r))
        return r

    def __setitem__(self, idx, value):
        if _has_sym_index(idx):
            raise Unsupported("setitem with symbolic index")
        np.ndarray.__setitem__(self, _concretize_index(idx), strip(value) if isinstance(value, np.ndarray) else value)

    def astype(self, dtype, *a, **k):
        if dtype is object or dtype == object:
            return self.copy()
        kind = np.dtype(dtype).kind if not isinstance(dtype, str) or dtype != "real" else "f"
        if kind == "f":
            return map_cells(lambda c: SV.lift(c).toreal(), self)
        if kind in "iu":
            return map_cells(lambda c: SV.lift(c).toint(), self)
        if kind == "b":
            return map_cells(lambda c: SV.lift(c).tobool(), self)
        raise Unsupported("astype %s" % dtype)

    def argmax(self, axis=None, out=None, keepdims=False):
        return _argmaxmin(self, axis, True, keepdims)

    def argmin(self, axis=None, out=None, keepdims=False):
        return _argmaxmin(self, axis, False, keepdims)

    def clip(self, min=None, max=None, out=None, **kw):
        return _clip(self, min, max)

    def mean(self, axis=None, dtype=None, out=None, keepdims=False, **kw):
        n = _count(self, axis)
        return wrap(np.add.reduce(self, axis=_ax(axis), keepdims=keepdims)) / n

    def var(self, axis=None, dtype=None, out=None, ddof=0, keepdims=False, **kw):
        n = _count(self, axis)
        m = wrap(np.add.reduce(self, axis=_ax(axis), keepdims=True)) / n
        d = self - m
        return wrap(np.add.reduce(d * d, axis=_ax(axis), keepdims=keepdims)) / (n - ddof)

    def std(self, axis=None, dtype=None, out=None, ddof=0, keepdims=False, **kw):
        return np.sqrt(self.var(axis=axis, ddof=ddof, keepdims=keepdims))

    def item(self, *a):
        r = np.ndarray.item(self.view(np.ndarray), *a)
        if isinstance(r, SV):
            c = r.const_value() if r.is_const() else None
            if c is None:
                raise Unsupported("realisation .item()")
            return c
        return r

    def tolist(self):
        raise Unsupported("realisation .tolist()")

    def __float__(self):
        return float(SV.lift(self.view(np.ndarray).reshape(-1)[0])) if self.size == 1 else np.ndarray.__float__(self)

    def __int__(self):
        return int(SV.lift(self.view(np.ndarray).reshape(-1)[0])) if self.size == 1 else np.ndarray.__int__(self)

    def __bool__(self):
        if self.size != 1:
            raise ValueError("The truth value of an array with more than one element is ambiguous.")
        return bool(SV.lift(self.view(np.ndarray).reshape(-1)[0]))

    def __repr__(self):
        return "SymArray(shape=%s)" % (self.shape,)

    __str__ = __repr__


class DetachedSymArray(SymArray):
    """result of funsor.ops.detach on a symbolic array: a value used for numerical stabilisation only.
    The maximum of detached LOG-kind cells is abstracted to a fresh positive unknown (any positive shift must give
    the same final value; if the code relied on the shift being the true maximum the proof fails -> the model does
    not replay -> inconclusive, never a false alarm)."""

    def __array_finalize__(self, obj):
        pass


_SHIFT_COUNTER = [0]


def _abstract_shift(r, positive=False):
    """let-bind the (exact) maximum of detached log-kind cells to a fresh symbol m with the axiom m == <exact term>:
    nothing is over-approximated, but subtracting and re-adding the shift now cancels structurally (symx.sv
    denominators) instead of dividing by an If-chain inside every product"""
    from .sv import shift_symbol
    a = r.view(np.ndarray)
    out = np.empty(a.shape, dtype=object)
    for idx in np.ndindex(*a.shape):
        c = SV.lift(a[idx]).flat()
        if c.k == "real" and c.p is not None and not c.is_const():
            _SHIFT_COUNTER[0] += 1
            m = shift_symbol(engine.fresh_name("shift"))
            engine.axiom("shift|%s" % m, z3.And(m == c.p, (m > 0) if positive else (m >= 0)))
            out[idx] = SV("real", c.l, m)
        else:
            out[idx] = c
    return out.view(DetachedSymArray)      # a maximum of detached values is still only a stabilising shift


def _ax(axis):
    return axis


def _axes(axis, ndim):
    if axis is None:
        return tuple(range(ndim))
    if isinstance(axis, int):
        return (axis % ndim if ndim else 0,)
    return tuple(a % ndim for a in axis)


def _count(a, axis):
    n = 1
    for ax in _axes(axis, a.ndim):
        n *= a.shape[ax]
    return n


def _matmul(a, b):
    # numpy's object matmul uses python * and +; keep it but make the cells SVs
    a = np.frompyfunc(SV.lift, 1, 1)(a) if a.size else a
    b = np.frompyfunc(SV.lift, 1, 1)(b) if b.size else b
    return np.matmul(a, b)


def _ufunc_at(fn, a, idx, b):
    if _has_sym_index(idx):
        raise Unsupported("ufunc.at with symbolic index")
    idx = _concretize_index(idx)
    tgt = a.view(np.ndarray)
    pos = np.arange(tgt.size).reshape(tgt.shape)[idx]
    flat = tgt.reshape(-1)
    if flat.base is None and tgt.size:
        raise Unsupported("ufunc.at on non-contiguous target")
    src = np.broadcast_to(as_obj(b), pos.shape)
    for p, s in zip(pos.ravel(), src.ravel()):
        flat[p] = fn(flat[p], s)


# ---------------------------------------------------------------------------------------------------
# indexing
# ---------------------------------------------------------------------------------------------------

def _is_sym_index_array(x):
    if isinstance(x, np.ndarray) and x.dtype == object:
        for c in x.view(np.ndarray).ravel():
            if isinstance(c, SV) and not c.is_const():
                return True
    if isinstance(x, SV) and not x.is_const():
        return True
    return False


def _has_sym_index(idx):
    if isinstance(idx, tuple):
        return any(_is_sym_index_array(i) for i in idx)
    return _is_sym_index_array(idx)


def _concretize_index(idx):
    def c1(i):
        if isinstance(i, SV):
            return int(i)
        if isinstance(i, np.ndarray) and i.dtype == object:
            i = i.view(np.ndarray)
            out = np.empty(i.shape, dtype=np.int64)
            for p in np.ndindex(*i.shape):
                out[p] = int(SV.lift(i[p]))
            return out
        return i
    if isinstance(idx, tuple):
        return tuple(c1(i) for i in idx)
    return c1(idx)


def _sym_getitem(arr, idx):
    """model of numpy advanced indexing where some index arrays hold symbolic ints.
    Supported form: a tuple whose leading entries are integer arrays / ints (all broadcast together) followed only
    by full slices / Ellipsis.  result[b + e] = arr[i1[b], ..., ik[b]][e], as an If-chain over each symbolic index."""
    if not isinstance(idx, tuple):
        idx = (idx,)
    lead = []
    rest = list(idx)
    while rest and not isinstance(rest[0], slice) and rest[0] is not Ellipsis and rest[0] is not None:
        lead.append(rest.pop(0))
    for r in rest:
        if not (r is Ellipsis or (isinstance(r, slice) and r == slice(None))):
            raise Unsupported("symbolic advanced indexing mixed with partial slices")
    k = len(lead)
    data = arr.view(np.ndarray)
    if k > data.ndim:
        raise IndexError("too many indices")
    larrs = [as_obj(x) for x in lead]
    B = np.broadcast_shapes(*[x.shape for x in larrs])
    larrs = [np.broadcast_to(x, B) for x in larrs]
    ev_shape = data.shape[k:]
    out = np.empty(B + ev_shape, dtype=object)

    def sel(prefix, d, b):
        if d == k:
            return data[prefix]
        c = SV.lift(larrs[d][b])
        n = data.shape[d]
        cv = c.const_value() if c.is_const() else None
        if cv is not None:
            cv = int(cv)
            if cv < 0:
                cv += n
            return sel(prefix + (cv,), d + 1, b)
        c = c.toint()
        engine.defined(z3.And(c.l >= -n, c.l < n), "index in range")
        ce = z3.If(c.l < 0, c.l + n, c.l)
        res = sel(prefix + (n - 1,), d + 1, b)
        for v in range(n - 2, -1, -1):
            alt = sel(prefix + (v,), d + 1, b)
            cond = SV("bool", ce == v)
            if isinstance(res, np.ndarray):
                res = map_cells(lambda a_, b_, cond=cond: sv_where(cond, a_, b_), alt, res).view(np.ndarray)
            else:
                res = sv_where(cond, alt, res)
        return res

    for b in np.ndindex(*B):
        out[b] = sel((), 0, b)
    return out.view(SymArray)


# ---------------------------------------------------------------------------------------------------
# function models
# ---------------------------------------------------------------------------------------------------

def _where(c, a=None, b=None):
    if a is None:
        raise Unsupported("np.where(cond) nonzero form")
    return map_cells(sv_where, c, a, b)


def _clip1(x, lo, hi):
    x = SV.lift(x)
    if lo is not None:
        x = finfo_clip_lo(x, lo) if isinstance(lo, FInfoConst) else sv_max(x, lo)
    if hi is not None:
        if isinstance(hi, FInfoConst):
            if hi.which == "min":
                x = sv_min(x, hi.as_sv())
        else:
            x = sv_min(x, hi)
    return x


def _clip(a, a_min=None, a_max=None, out=None, *, min=None, max=None, **kw):
    lo = a_min if a_min is not None else min
    hi = a_max if a_max is not None else max
    arrs = [a]
    los = his = None
    if isinstance(lo, np.ndarray):
        los = len(arrs)
        arrs.append(lo)
    if isinstance(hi, np.ndarray):
        his = len(arrs)
        arrs.append(hi)

    def f(*xs):
        return _clip1(xs[0], xs[los] if los is not None else lo, xs[his] if his is not None else hi)
    r = map_cells(f, *arrs)
    if isinstance(a, DetachedSymArray) and hi is None:
        # a clamped detached value is still only a stabilising shift; clamped from below by finfo.min it is > -inf
        return _abstract_shift(r, positive=isinstance(lo, FInfoConst) and lo.which == "min")
    return r


def _argmaxmin(a, axis, is_max, keepdims=False):
    d = as_obj(a)
    if axis is None:
        d = d.reshape(-1)
        axis = 0
    d = np.moveaxis(d, axis, -1)
    out = np.empty(d.shape[:-1], dtype=object)
    for idx in np.ndindex(*d.shape[:-1]):
        row = d[idx]
        best = SV.lift(row[0])
        bi = SV("int", z3.IntVal(0))
        for j in range(1, len(row)):
            v = SV.lift(row[j])
            c = (v > best) if is_max else (v < best)
            best = sv_where(c, v, best)
            bi = sv_where(c, SV("int", z3.IntVal(j)), bi)
        out[idx] = bi
    r = out.view(SymArray)
    if keepdims:
        r = np.expand_dims(r, axis)
    return r


def _full_like(proto, fill_value, dtype=None, **kw):
    out = np.empty(np.shape(proto), dtype=object)
    v = fill_value if isinstance(fill_value, SV) else SV.lift(fill_value)
    for idx in np.ndindex(*out.shape):
        out[idx] = v
    return out.view(SymArray)


def _allclose(a, b, rtol=1e-5, atol=1e-8, equal_nan=False):
    # exact equality in the real model (used by funsor only in assertions / affine pattern checks)
    r = map_cells(lambda x, y: SV.lift(x) == SV.lift(y), a, b)
    return bool(np.logical_and.reduce(r, axis=None))


def _cholesky(a):
    a = as_obj(a)
    if a.shape[-1] == 1 and a.shape[-2] == 1:
        return map_cells(lambda c: SV.lift(c).sqrt(), a)
    raise Unsupported("np.linalg.cholesky beyond 1x1")


def _inv(a):
    a = as_obj(a)
    if a.shape[-1] == 1 and a.shape[-2] == 1:
        return map_cells(lambda c: 1 / SV.lift(c).toreal(), a)
    # triangular / general small inverse by cofactors is polynomial but needs det != 0
    n = a.shape[-1]
    if n == 2:
        out = np.empty(a.shape, dtype=object)
        for idx in np.ndindex(*a.shape[:-2]):
            m = a[idx]
            p, q, r, s = [SV.lift(m[i, j]).toreal() for i in (0, 1) for j in (0, 1)]
            det = p * s - q * r
            out[idx + (0, 0)] = s / det
            out[idx + (0, 1)] = -q / det
            out[idx + (1, 0)] = -r / det
            out[idx + (1, 1)] = p / det
        return out.view(SymArray)
    raise Unsupported("np.linalg.inv beyond 2x2")


def _qr(a, mode="reduced"):
    raise Unsupported("np.linalg.qr")


FUNCS = {
    np.where: _where,
    np.clip: _clip,
    np.argmax: lambda a, axis=None, out=None, keepdims=False: _argmaxmin(a, axis, True, bool(keepdims)),
    np.argmin: lambda a, axis=None, out=None, keepdims=False: _argmaxmin(a, axis, False, bool(keepdims)),
    np.full_like: _full_like,
    np.allclose: _allclose,
    np.linalg.cholesky: _cholesky,
    np.linalg.inv: _inv,
    np.linalg.qr: _qr,
}


# ---------------------------------------------------------------------------------------------------
# construction helpers
# ---------------------------------------------------------------------------------------------------

def sym_array(name, shape, carrier="real", ctx_assume=True):
    """fresh symbolic array.  carriers:
       real      : any finite real
       nonneg    : finite real >= 0
       pos       : finite real > 0
       log       : [-inf, inf)  as log(p), p >= 0
       logfinite : (-inf, inf)  as log(p), p > 0
       bool      : booleans
       ('int', n): integers in [0, n)
    """
    a = np.empty(shape, dtype=object)
    for idx in np.ndindex(*shape):
        nm = name + "".join("_%d" % i for i in idx)
        a[idx] = sym_scalar(nm, carrier, ctx_assume)
    return a.view(SymArray)


def sym_scalar(nm, carrier="real", ctx_assume=True):
    add = engine.assume if ctx_assume else (lambda c: None)
    if carrier == "real":
        return SV("real", z3.Real(nm))
    if carrier == "nonneg":
        v = z3.Real(nm)
        add(v >= 0)
        return SV("real", v)
    if carrier == "pos":
        v = z3.Real(nm)
        add(v > 0)
        return SV("real", v)
    if carrier == "log":
        v = z3.Real(nm)
        add(v >= 0)
        return SV("real", z3.RealVal(0), v)
    if carrier == "logfinite":
        v = z3.Real(nm)
        add(v > 0)
        return SV("real", z3.RealVal(0), v)
    if carrier == "bool":
        return SV("bool", z3.Bool(nm))
    if isinstance(carrier, tuple) and carrier[0] == "int":
        v = z3.Int(nm)
        add(z3.And(v >= 0, v < carrier[1]))
        return SV("int", v)
    raise ValueError(carrier)


def concretize(arr, model, dtype=None):
    """numpy array of concrete values of a SymArray under a z3 model"""
    from .sv import sv_eval
    a = as_obj(arr)
    out = np.empty(a.shape, dtype=object)
    for idx in np.ndindex(*a.shape):
        out[idx] = sv_eval(SV.lift(a[idx]), model)
    if dtype is not None:
        return out.astype(dtype)
    ks = {SV.lift(c).k for c in a.ravel()} or {"real"}
    if ks <= {"bool"}:
        return out.astype(bool)
    if ks <= {"int", "bool"}:
        return out.astype(np.int64)
    return out.astype(np.float64)


class NpProxy:
    """stand-in for the numpy module inside funsor.ops.array: only `finfo`/`iinfo` of the object dtype differ"""

    def __init__(self, real_np):
        object.__setattr__(self, "_np", real_np)

    def __getattr__(self, name):
        return getattr(self._np, name)

    def finfo(self, dtype):
        if dtype == object:
            return _FInfo()
        return self._np.finfo(dtype)

    def _sym(self, name, *a, **k):
        r = getattr(self._np, name)(*a, **k)
        if isinstance(r, np.ndarray) and r.dtype == object and not isinstance(r, SymArray):
            r = r.view(SymArray)         # new_full / new_zeros of a symbolic prototype stay symbolic arrays
        return r

    def full(self, *a, **k):
        return self._sym("full", *a, **k)

    def zeros(self, *a, **k):
        return self._sym("zeros", *a, **k)

    def ones(self, *a, **k):
        return self._sym("ones", *a, **k)

    def iinfo(self, dtype):
        if dtype == object:
            return _FInfo()
        return self._np.iinfo(dtype)


class _FInfo:
    min = FInfoConst("min")
    max = FInfoConst("max")
    eps = 2.0 ** -52
    tiny = 2.0 ** -1022


_INSTALLED = []
_SPEC = []


def use_logsumexp_spec():
    """assume-guarantee cut for the algorithm harnesses (C08-C11, C14): funsor.ops.logsumexp on symbolic arrays is
    replaced by its specification (fold of log-space addition).  The real kernel, including its -inf handling, is
    decided separately under C01/C15."""
    if _SPEC:
        return
    install()
    import funsor.ops as ops
    from .sv import sv_logaddexp

    def spec(x, axis=None, keepdims=False):
        a = as_obj(x)
        nd = a.ndim
        axes = _axes(axis, nd) if nd else ()
        r = a
        for ax in sorted(axes, reverse=True):
            moved = np.moveaxis(r, ax, -1)
            out = np.empty(moved.shape[:-1], dtype=object)
            for idx in np.ndindex(*out.shape):
                acc = SV.lift(moved[idx][0])
                for c in moved[idx][1:]:
                    acc = sv_logaddexp(acc, c)
                out[idx] = acc
            r = np.expand_dims(out, ax)
        if not keepdims:
            r = r.reshape(tuple(n for i, n in enumerate(r.shape) if i not in axes))
        return r.view(SymArray)
    ops.logsumexp.register(SymArray)(spec)
    _SPEC.append(True)


def install():
    """run-time patches (no source change): numpy proxy for funsor.ops.array (finfo of object dtype)."""
    if _INSTALLED:
        return
    import funsor.ops.array as A
    import funsor.ops as ops
    A.np = NpProxy(np)
    ops.detach.register(SymArray)(lambda x: x.view(DetachedSymArray))
    _INSTALLED.append(True)
