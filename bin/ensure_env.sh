#!/bin/sh
# Idempotent, offline: overlay venv of /venv with z3-solver (and crosshair-tool) from the local wheelhouse.
set -e
V=/verif/.venv
if [ -x "$V/bin/python" ] && "$V/bin/python" -c "import z3, numpy, funsor" >/dev/null 2>&1; then
  exit 0
fi
rm -rf "$V"
/venv/bin/python -m venv "$V"
SP=$("$V/bin/python" -c "import sysconfig; print(sysconfig.get_paths()['purelib'])")
printf "import site; site.addsitedir('/venv/lib/python3.12/site-packages')\n" > "$SP/_verif_overlay.pth"
PIP_NO_INDEX=1 "$V/bin/pip" install -q --no-index --find-links /opt/veriftools/wheels z3-solver >/dev/null
PIP_NO_INDEX=1 "$V/bin/pip" install -q --no-index --find-links /opt/veriftools/wheels crosshair-tool >/dev/null 2>&1 || echo "note: crosshair-tool not installed (optional)"
"$V/bin/python" -c "import z3, numpy, funsor; print('verif env ok: z3', z3.get_version_string(), 'numpy', numpy.__version__, 'funsor from', funsor.__file__)"
