"""regenerates MANIFEST.json from the table below (keeps it valid at all times)"""
import json, os
ROOT = os.path.dirname(os.path.abspath(__file__))
BASE = json.load(open("/root/.vp/BASELINE.json"))["cmd"] if os.path.exists("/root/.vp/BASELINE.json") else ""
CHECKS = {}
NA = {}
exec(open(os.path.join(ROOT, "manifest_table.py")).read())
checks = []
for pid, c in sorted(CHECKS.items()):
    checks.append(dict(
        property_id=pid,
        quick_cmd="./bin/vcheck %s --tier quick" % pid,
        thorough_cmd="./bin/vcheck %s --tier thorough" % pid,
        evidence_file="/verif/evidence/%s.json" % pid,
        replay_cmd_template="./bin/vcheck %s --replay {path}" % pid,
        engine=c["engine"],
        level_claimed=dict(category=c["level"], text=c["text"], design_ref=c.get("design_ref", "DESIGN.md §3 " + pid)),
        level_note=c["note"],
        technique=c["technique"],
    ))
m = dict(
    version=1,
    setup_cmd="./bin/ensure_env.sh",
    hooks=dict(guard="FUNSOR_VERIF", enable="no source hooks: all instrumentation (dispatch wrappers, numpy/math proxies, interning and RNG stubs) is installed at run time inside the check's own processes",
               baseline_off_cmd="cd /repo && /venv/bin/python -m pytest -ra -q -p no:cacheprovider --timeout=900 --continue-on-collection-errors --junitxml=/tmp/verif_baseline.junit.xml",
               source_commits=[], add_only=True),
    engines=[
        dict(name="symtensor", path="symx/sv.py symx/symarray.py harness/core.py", serves_properties=[p for p, c in sorted(CHECKS.items()) if "A" in c["engine"]],
             kind_free_text="Engine A: real funsor code executed on numpy object arrays whose cells are z3 terms; validity queries per enumerated structure"),
        dict(name="symint", path="symx/symint.py", serves_properties=[p for p, c in sorted(CHECKS.items()) if "B" in c["engine"]],
             kind_free_text="Engine B: real funsor bytecode executed on int-subclass proxies building z3 Int terms, forking at branches"),
    ],
    checks=checks,
    notes="Solver-based checking of the real code only; see DESIGN.md. Exit codes: 0 held, 1 VIOLATION (replayed), 3 harness error/inconclusive budget exceeded.",
    not_applicable=[dict(property_id=p, reason=r) for p, r in sorted(NA.items())],
)
json.dump(m, open(os.path.join(ROOT, "MANIFEST.json"), "w"), indent=1)
print("wrote MANIFEST.json with", len(checks), "checks,", len(NA), "not applicable")
