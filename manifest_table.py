TB = "trusted: z3, the SV algebra and numpy model table (symx/), the oracle (lang/denote.py, lang/prog.py type_of); floats abstracted to reals (+ -inf in log space): rounding/NaN/+inf outside the claim; structures enumerated within the stated families only"
CHECKS["C01"] = dict(
    engine="A", level="model_checking", technique="bounded symbolic execution of the real eager rules on z3-valued tensor cells + SMT validity query per expression (z3), counterexample replayed on float64",
    text="For every expression of the enumerated families (templates over 5 carrier themes, depth 1 exhaustive / depth 2 seeded subset in quick; deeper in thorough; named inputs of sizes 1-4) the real eager evaluation is run on symbolic cells and z3 decides result == textbook oracle at every point for ALL tensor contents. Bounded by structure, unbounded in contents.",
    note=TB)
_pending = "check not built yet in this session (work in progress; will be claimed when its harness lands)"
for p in ["C02", "C03", "C04", "C05", "C06", "C08", "C09", "C10", "C11", "C12", "C14", "C15", "C16", "C17", "C18", "C19", "C20"]:
    NA[p] = _pending
NA["C07"] = "quantifies over heap histories (object identity, weak references, gc, id reuse): CPython runtime semantics with no SMT encoding of the real code; see DESIGN.md §4"
NA["C13"] = "every operation goes through cholesky/triangular solves/QR; the obligations hold only modulo the factorization equations and z3/cvc5 return unknown beyond 1x1 blocks (measured, DESIGN.md §4/§7)"
