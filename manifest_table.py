TB = "trusted: z3, the SV algebra and numpy model table (symx/), the oracle (lang/denote.py, lang/prog.py type_of); floats abstracted to reals (+ -inf in log space): rounding/NaN/+inf outside the claim; structures enumerated within the stated families only"
CHECKS["C01"] = dict(
    engine="A", level="model_checking", technique="bounded symbolic execution of the real eager rules on z3-valued tensor cells + SMT validity query per expression (z3), counterexample replayed on float64",
    text="For every expression of the enumerated families (templates over 5 carrier themes, depth 1 exhaustive / depth 2 seeded subset in quick; deeper in thorough; named inputs of sizes 1-4) the real eager evaluation is run on symbolic cells and z3 decides result == textbook oracle at every point for ALL tensor contents. Bounded by structure, unbounded in contents.",
    note=TB)
CHECKS["C15"] = dict(
    engine="A+FP", level="proof", technique="SMT validity (z3 NRA/LIA) of each algebraic table entry with the real op objects executed on unconstrained symbolic scalars/arrays; z3 FloatingPoint theory for NaN-freedom of safediv/safesub/reciprocal regenerated from source",
    text="Every entry of UNITS / DISTRIBUTIVE_OPS / BINARY_INVERSES / SAFE_BINARY_INVERSES / UNARY_INVERSES / PRODUCT_TO_POWER (read from the live module) is decided as a validity query over ALL operands of its carrier through both the scalar default and the array registration (shapes () (3,) (3,2), mixed python-scalar/array dispatch); scalar/0-d/array agreement per op; exact -inf limits of logaddexp/logsumexp/log-space and max-plus einsum; NaN-freedom of the three safe kernels over all of float64 (FP theory). Unbounded in operand values (a proof per obligation: obligations == discharged), bounded in shapes and power n<=6|10.",
    note=TB + "; libm (math.exp/log/...) modelled by the SV algebra; accuracy near the float range boundary of exp/log kernels and NaN inputs outside the claim; `sample` decided on finite log values only")
_pending = "check not built yet in this session (work in progress; will be claimed when its harness lands)"
for p in ["C02", "C03", "C04", "C05", "C06", "C08", "C09", "C10", "C11", "C12", "C14", "C16", "C17", "C18", "C19", "C20"]:
    NA[p] = _pending
NA["C07"] = "quantifies over heap histories (object identity, weak references, gc, id reuse): CPython runtime semantics with no SMT encoding of the real code; see DESIGN.md §4"
NA["C13"] = "every operation goes through cholesky/triangular solves/QR; the obligations hold only modulo the factorization equations and z3/cvc5 return unknown beyond 1x1 blocks (measured, DESIGN.md §4/§7)"
