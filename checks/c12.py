"""C12 — Gaussian pointwise algebra agrees with the dense quadratic form (Engine A, polynomial fragment).

Everything here is polynomial in (white_vec, prec_sqrt, point).  Parametrisations that need a Cholesky/inverse are
claimed for a single scalar real input only (1x1: sqrt cell with s >= 0 and s*s == t); rank compression (QR) and
factorizations >= 2x2 are Unsupported by the numpy model and stay outside the claim (DESIGN.md section 4)."""
import itertools
import os
import random
import sys
from collections import OrderedDict

sys.path.insert(0, os.path.dirname(os.path.dirname(os.path.abspath(__file__))))

from harness.runner import Check  # noqa: E402


def _cells(a):
    import numpy as np
    from symx.symarray import as_obj
    return as_obj(a)


def quad(W, P, xs):
    """-1/2 || x P - w ||^2 ; x flat list, P (dim, rank), w (rank,)"""
    rank = len(W)
    acc = 0
    for r in range(rank):
        v = -W[r]
        for d in range(len(xs)):
            v = v + xs[d] * P[d][r]
        acc = acc + v * v
    return acc * -0.5 if rank else 0.0


def flat_point(point, real_inputs):
    xs = []
    for k, shape in real_inputs.items():
        xs += list(_cells(point[k]).reshape(-1))
    return xs


def mk_gaussian(mk, name, batch, reals, rank):
    """Gaussian(white_vec, prec_sqrt, inputs) with symbolic parameters; inputs = batch (Bint) then reals"""
    from funsor import Bint, Reals
    from funsor.gaussian import Gaussian
    bshape = tuple(batch.values())
    dim = sum(int(__import__("numpy").prod(s, dtype=int)) for s in reals.values())
    W = mk.array(name + "w", bshape + (rank,), "real")
    P = mk.array(name + "P", bshape + (dim, rank), "real")
    inputs = OrderedDict([(k, Bint[n]) for k, n in batch.items()] + [(k, Reals[tuple(s)]) for k, s in reals.items()])
    return Gaussian(white_vec=W, prec_sqrt=P, inputs=inputs), W, P


def dense(W, P, bidx, xs):
    Wc, Pc = _cells(W), _cells(P)
    return quad(list(Wc[bidx]), Pc[bidx], xs)


def eval_at(f, point):
    from funsor.tensor import Tensor
    sub = {k: Tensor(v) for k, v in point.items() if k in f.inputs}
    return f(**sub) if sub else f


def value_cells(r, batch, order=None):
    """list of cells of a ground funsor over the batch inputs, in itertools.product order of `batch`"""
    from harness.core import result_cells
    out = []
    for bidx in itertools.product(*(range(n) for n in batch.values())):
        out.append(result_cells(r, dict(zip(batch, bidx)))[()])
    return out


def build_obligation(inst):
    kind = inst[0]

    def ob(mk):
        import numpy as np
        import funsor
        import funsor.ops as ops
        from funsor import Bint, Real, Reals, Tensor, Variable
        from funsor.gaussian import Gaussian
        from funsor.interpretations import lazy
        from funsor.terms import Cat, Subs
        from harness.oblig import Decline
        with Gaussian.set_compression_threshold(float("inf")):
            if kind == "eval":
                _, batch, reals, rank = inst
                g, W, P = mk_gaussian(mk, "a", batch, reals, rank)
                pt = {k: mk.array("p" + k, s, "real") for k, s in reals.items()}
                r = eval_at(g, pt)
                xs = flat_point(pt, reals)
                return [(value_cells(r, batch), [dense(W, P, b, xs) for b in itertools.product(*(range(n) for n in batch.values()))])]
            if kind == "add":
                _, batch, reals1, rank1, reals2, rank2, order2 = inst
                g1, W1, P1 = mk_gaussian(mk, "a", batch, reals1, rank1)
                b2 = OrderedDict((k, batch[k]) for k in order2) if order2 else batch
                g2, W2, P2 = mk_gaussian(mk, "b", b2, reals2, rank2)
                s = g1 + g2
                allreals = OrderedDict(list(reals1.items()) + [(k, v) for k, v in reals2.items() if k not in reals1])
                pt = {k: mk.array("p" + k, sh, "real") for k, sh in allreals.items()}
                r = eval_at(s, pt)
                exp = []
                for b in itertools.product(*(range(n) for n in batch.values())):
                    env = dict(zip(batch, b))
                    bb2 = tuple(env[k] for k in b2)
                    exp.append(dense(W1, P1, b, flat_point(pt, reals1)) + dense(W2, P2, bb2, flat_point(pt, reals2)))
                return [(value_cells(r, batch), exp)]
            if kind == "subs_real":
                _, batch, reals, rank, first, how = inst
                g, W, P = mk_gaussian(mk, "a", batch, reals, rank)
                pt = {k: mk.array("p" + k, s, "real") for k, s in reals.items()}
                if how == "call":
                    part = g(**{k: Tensor(pt[k]) for k in first})
                else:       # Subs with the pairs in the caller's order (not the Gaussian's input order)
                    part = Subs(g, tuple((k, Tensor(pt[k])) for k in first))
                r = eval_at(part, pt)
                xs = flat_point(pt, reals)
                return [(value_cells(r, batch), [dense(W, P, b, xs) for b in itertools.product(*(range(n) for n in batch.values()))])]
            if kind == "contraction_subs":
                # (g - g1)(x=.., y=..): the Contraction forwards substitutions in ITS OWN input order
                _, batch, reals, rank = inst
                g, W, P = mk_gaussian(mk, "a", batch, reals, rank)
                rev = OrderedDict(reversed(list(reals.items())))
                g1, W1, P1 = mk_gaussian(mk, "b", batch, OrderedDict(list(rev.items())[:2]), 1)
                pt = {k: mk.array("p" + k, s, "real") for k, s in reals.items()}
                names = list(rev)[:2]
                e = (g + g1)(**{k: Tensor(pt[k]) for k in names})
                r = eval_at(e, pt)
                exp = []
                for b in itertools.product(*(range(n) for n in batch.values())):
                    exp.append(dense(W, P, b, flat_point(pt, reals)) + dense(W1, P1, b, flat_point(pt, OrderedDict(list(rev.items())[:2]))))
                return [(value_cells(r, batch), exp)]
            if kind == "int":
                _, batch, reals, rank, how = inst
                g, W, P = mk_gaussian(mk, "a", batch, reals, rank)
                pt = {k: mk.array("p" + k, s, "real") for k, s in reals.items()}
                xs = flat_point(pt, reals)
                k0 = next(iter(batch))
                n0 = batch[k0]
                rest = OrderedDict((k, n) for k, n in batch.items() if k != k0)
                if how == "number":
                    r = eval_at(g(**{k0: n0 - 1}), pt)
                    got = value_cells(r, rest)
                    exp = [dense(W, P, (n0 - 1,) + b, xs) for b in itertools.product(*(range(n) for n in rest.values()))]
                elif how == "rename":
                    gg = g(**{k0: "zz"})
                    if len(reals) >= 1:
                        rk = next(iter(reals))
                        gg = gg(**{rk: "rr"})
                        pt2 = dict(pt)
                        pt2["rr"] = pt2.pop(rk)
                    else:
                        pt2 = pt
                    gg = gg.align(tuple(reversed(list(gg.inputs))))
                    r = eval_at(gg, pt2)
                    nb = OrderedDict([("zz", n0)] + list(rest.items()))
                    got = value_cells(r, nb)
                    exp = [dense(W, P, b, xs) for b in itertools.product(*(range(n) for n in batch.values()))]
                elif how == "index_tensor":
                    # index tensor whose own input is named like ANOTHER batch input, plus a simultaneous rename of that
                    # one.  The (few) index values are ENUMERATED; the Gaussian parameters and the point stay symbolic.
                    from harness.core import result_cells
                    others = list(rest)
                    iname = others[0] if others else "q"
                    isize = rest[iname] if others else 2
                    got, exp = [], []
                    for vals in itertools.product(range(n0), repeat=isize):
                        idx = Tensor(np.array(vals, dtype=np.int64), OrderedDict([(iname, Bint[isize])]), n0)
                        if others:
                            gg = g(**{k0: idx, iname: "kk"})
                            want_inputs = {iname, "kk"} | (set(rest) - {iname})
                        else:
                            gg = g(**{k0: idx})
                            want_inputs = {iname}
                        r = eval_at(gg, pt)
                        if not set(r.inputs) <= want_inputs:
                            import z3
                            return [(z3.BoolVal(False) if mk.symbolic else False, None)]
                        nb = OrderedDict([(iname, isize)] + ([("kk", rest[iname])] if others else []) + [(k, n) for k, n in rest.items() if k != iname])
                        for b in itertools.product(*(range(n) for n in nb.values())):
                            env = dict(zip(nb, b))
                            got.append(result_cells(r, env)[()])
                            full = {k0: vals[env[iname]]}
                            if others:
                                full[iname] = env["kk"]
                            full.update({k: env[k] for k in rest if k != iname})
                            exp.append(dense(W, P, tuple(full[k] for k in batch), xs))
                elif how == "slice":
                    r = eval_at(g(**{k0: slice(1, None)}) if False else g(**{k0: funsor.terms.Slice("sl", 1, n0, 1, n0)}), pt)
                    nb = OrderedDict([("sl", n0 - 1)] + list(rest.items()))
                    got = value_cells(r, nb)
                    exp = [dense(W, P, (b[0] + 1,) + b[1:], xs) for b in itertools.product(*(range(n) for n in nb.values()))]
                return [(got, exp)]
            if kind == "affine":
                _, batch, reals, rank, form = inst
                g, W, P = mk_gaussian(mk, "a", batch, reals, rank)
                names = list(reals)
                x = names[0]
                sh = reals[x]
                u, v = Variable("u", Reals[sh]), Variable("v", Reals[sh])
                pu, pv = mk.array("pu", sh, "real"), mk.array("pv", sh, "real")
                pt = {k: mk.array("p" + k, s, "real") for k, s in reals.items() if k != x}
                if form == "one":
                    e = g(**{x: u * 2.0 - 1.0})
                    xval = _cells(pu) * 2.0 - 1.0
                elif form == "two":
                    e = g(**{x: u * 2.0 + v * 3.0 + 1.0})
                    xval = _cells(pu) * 2.0 + _cells(pv) * 3.0 + 1.0
                elif form == "kept" and len(names) >= 2 and reals[names[1]] == sh:
                    y = names[1]
                    e = g(**{x: Variable(y, Reals[sh]) * 0.5 - u})
                    xval = _cells(pt[y]) * 0.5 - _cells(pu)
                elif form in ("rename_affine", "rename_affine_int") and len(names) >= 2:
                    # ONE call that renames a real input and substitutes an affine expression for another
                    # (and, in the second form, also indexes a batch input)
                    y = names[1]
                    kw = {x: u * 2.0 - 1.0, y: Variable("yy", Reals[reals[y]])}
                    if form == "rename_affine_int":
                        if not batch:
                            raise Decline("form not applicable")
                        kb = next(iter(batch))
                        kw[kb] = 0
                    e = g(**kw)
                    want_in = (set(batch) - ({kb} if form == "rename_affine_int" else set())) | (set(reals) - {x, y}) | {"u", "yy"}
                    if set(e.inputs) != want_in:
                        import z3
                        return [(z3.BoolVal(False) if mk.symbolic else False, None)]
                    xval = _cells(pu) * 2.0 - 1.0
                    pyy = pt.pop(y)
                    allpt = dict(pt)
                    allpt.update(u=pu, v=pv, yy=pyy)
                    r = eval_at(e, allpt)
                    full = dict(pt)
                    full[x] = xval
                    full[y] = pyy
                    xs = flat_point(full, reals)
                    if form == "rename_affine_int":
                        rest = OrderedDict((k, n) for k, n in batch.items() if k != kb)
                        return [(value_cells(r, rest), [dense(W, P, (0,) + b, xs) for b in itertools.product(*(range(n) for n in rest.values()))])]
                    return [(value_cells(r, batch), [dense(W, P, b, xs) for b in itertools.product(*(range(n) for n in batch.values()))])]
                else:
                    raise Decline("form not applicable")
                allpt = dict(pt)
                allpt.update(u=pu, v=pv)
                r = eval_at(e, allpt)
                full = dict(pt)
                full[x] = xval
                xs = flat_point(full, reals)
                return [(value_cells(r, batch), [dense(W, P, b, xs) for b in itertools.product(*(range(n) for n in batch.values()))])]
            if kind == "plate":
                _, batch, reals, rank = inst
                g, W, P = mk_gaussian(mk, "a", batch, reals, rank)
                k0 = next(iter(batch))
                pt = {k: mk.array("p" + k, s, "real") for k, s in reals.items()}
                xs = flat_point(pt, reals)
                r = eval_at(g.reduce(ops.add, k0), pt)
                rest = OrderedDict((k, n) for k, n in batch.items() if k != k0)
                exp = []
                for b in itertools.product(*(range(n) for n in rest.values())):
                    acc = 0
                    for i in range(batch[k0]):
                        acc = acc + dense(W, P, (i,) + b, xs)
                    exp.append(acc)
                return [(value_cells(r, rest), exp)]
            if kind == "mean":
                _, batch, reals, rank = inst
                bshape = tuple(batch.values())
                dim = sum(int(np.prod(s, dtype=int)) for s in reals.values())
                M = mk.array("m", bshape + (dim,), "real")
                P = mk.array("Q", bshape + (dim, rank), "real")
                inputs = OrderedDict([(k, Bint[n]) for k, n in batch.items()] + [(k, Reals[tuple(s)]) for k, s in reals.items()])
                g = Gaussian(mean=M, prec_sqrt=P, inputs=inputs)
                pt = {k: mk.array("p" + k, s, "real") for k, s in reals.items()}
                xs = flat_point(pt, reals)
                r = eval_at(g, pt)
                exp = []
                Mc, Pc = _cells(M), _cells(P)
                for b in itertools.product(*(range(n) for n in batch.values())):
                    d = [a - m for a, m in zip(xs, Mc[b])]
                    acc = 0
                    for rr in range(rank):
                        t = 0
                        for kk in range(dim):
                            t = t + d[kk] * Pc[b][kk][rr]
                        acc = acc + t * t
                    exp.append(acc * -0.5 if rank else 0.0)
                return [(value_cells(r, batch), exp)]
            if kind == "scalar_param":
                # 1x1 factorizations: precision | covariance | scale_tril  x  mean | info_vec | white_vec
                _, loc_kind, scale_kind = inst
                t = mk.array("t", (1, 1), "pos")
                loc = mk.array("loc", (1,), "real")
                kw = {loc_kind: loc, scale_kind: t}
                try:
                    g = Gaussian(inputs=OrderedDict(x=Real), **kw)
                except (NotImplementedError, ValueError) as e:
                    raise Decline(str(e))
                px = mk.array("px", (), "real")
                r = eval_at(g, dict(x=px))
                X = _cells(px)[()]
                T = _cells(t)[0, 0]
                L = _cells(loc)[0]
                # precision p and information vector eta of the scalar Gaussian; value = -1/2 p x^2 + eta x + const
                if scale_kind == "precision":
                    prec = T
                elif scale_kind == "covariance":
                    prec = 1 / T
                elif scale_kind == "scale_tril":
                    prec = 1 / (T * T)
                else:
                    prec = T * T           # prec_sqrt
                if loc_kind == "mean":
                    eta = prec * L
                    const = prec * L * L * -0.5
                elif loc_kind == "info_vec":
                    eta = L
                    const = L * L / prec * -0.5
                else:                       # white_vec w: eta = sqrt(prec) w, const = -1/2 w^2
                    from symx.sv import SV
                    s = SV.lift(prec).sqrt()
                    eta = s * L
                    const = L * L * -0.5
                return [([_first(r)], [X * X * prec * -0.5 + eta * X + const])]
            if kind == "cat":
                _, batch, reals, rank1, rank2 = inst[:5]
                g1, W1, P1 = mk_gaussian(mk, "a", batch, reals, rank1)
                g2, W2, P2 = mk_gaussian(mk, "b", batch, reals, rank2)
                k0 = inst[6] if len(inst) > 6 else next(iter(batch))
                cname = inst[5] if len(inst) > 5 else k0       # Cat(name, parts, part_name) with name != part_name renames
                c = Cat(cname, (g1, g2), k0)
                pt = {k: mk.array("p" + k, s, "real") for k, s in reals.items()}
                xs = flat_point(pt, reals)
                r = eval_at(c, pt)
                nb = OrderedDict([(cname, 2 * batch[k0])] + [(k, n) for k, n in batch.items() if k != k0])
                if list(batch).index(k0) != 0:
                    # dense() indexes the parts in their own batch order
                    order = list(batch)
                    exp = []
                    for b in itertools.product(*(range(n) for n in nb.values())):
                        env = dict(zip(nb, b))
                        part, W, P = (0, W1, P1) if env[cname] < batch[k0] else (1, W2, P2)
                        env[k0] = env[cname] - part * batch[k0]
                        exp.append(dense(W, P, tuple(env[k] for k in order), xs))
                    return [(value_cells(r, nb), exp)]
                exp = []
                for b in itertools.product(*(range(n) for n in nb.values())):
                    if b[0] < batch[k0]:
                        exp.append(dense(W1, P1, b, xs))
                    else:
                        exp.append(dense(W2, P2, (b[0] - batch[k0],) + b[1:], xs))
                return [(value_cells(r, nb), exp)]
            if kind == "cat_hetero":
                # parts over DIFFERENT sets / orders of real inputs: the result ranges over their union
                _, batch, reals_a, reals_b, rank = inst
                g1, W1, P1 = mk_gaussian(mk, "a", batch, reals_a, rank)
                g2, W2, P2 = mk_gaussian(mk, "b", batch, reals_b, rank)
                k0 = next(iter(batch))
                c = Cat(k0, (g1, g2), k0)
                union = OrderedDict(list(reals_a.items()) + [(k, v) for k, v in reals_b.items() if k not in reals_a])
                import z3
                side = set(c.inputs) == set(batch) | set(union)
                pairs = [(z3.BoolVal(side) if mk.symbolic else side, None)]
                if not side:
                    return pairs
                pt = {k: mk.array("p" + k, s_, "real") for k, s_ in union.items()}
                r = eval_at(c, pt)
                xa = flat_point({k: pt[k] for k in reals_a}, reals_a)
                xb = flat_point({k: pt[k] for k in reals_b}, reals_b)
                nb = OrderedDict([(k0, 2 * batch[k0])] + [(k, n) for k, n in batch.items() if k != k0])
                exp = []
                for b in itertools.product(*(range(n) for n in nb.values())):
                    if b[0] < batch[k0]:
                        exp.append(dense(W1, P1, b, xa))
                    else:
                        exp.append(dense(W2, P2, (b[0] - batch[k0],) + b[1:], xb))
                pairs.append((value_cells(r, nb), exp))
                return pairs
            if kind == "lazy_nonaffine":
                # h = g(x = y*y) stays lazy; h(y=c) must equal g(x=c*c, y=c)
                _, batch, rank = inst[:3]
                how = inst[3] if len(inst) > 3 else "square"
                reals = OrderedDict(x=(), y=())
                g, W, P = mk_gaussian(mk, "a", batch, reals, rank)
                y = Variable("y", Real)
                # max/min of y * t is y * max(t) only for y >= 0 ((max|min, mul) is a semiring on non-negative data)
                c = mk.array("c", (), "pos" if how in ("reduce_max", "reduce_min") else "real")
                C_ = _cells(c)[()]
                from lang import cellops as CO
                if how == "square":
                    h, xv = g(x=y * y), C_ * C_
                elif how == "cube":              # an affine factor times a factor that is NOT affine in the same variable
                    h, xv = g(x=y * (y * y)), C_ * C_ * C_
                elif how == "yexp":
                    h, xv = g(x=y * ops.exp(y * 0.5)), C_ * CO.UNARY["exp"](C_ * 0.5)
                else:
                    # reductions of y * t over a fresh integer input: only the SUM is affine in y
                    T_ = mk.array("t", (2,), "pos")
                    t = Tensor(T_, OrderedDict(r_=Bint[2]))
                    Tc = _cells(T_)
                    opn = how.split("_", 1)[1]
                    if opn == "mulsum":      # a product over a SUM: stays a Reduce term, (c + t0)(c + t1) is not affine in c
                        h = g(x=(y + t).reduce(ops.mul, "r_"))
                        xv = (C_ + Tc[0]) * (C_ + Tc[1])
                    else:
                        h = g(x=(y * t).reduce(getattr(ops, opn), "r_"))
                        xv = CO.fold(opn, [C_ * Tc[0], C_ * Tc[1]])
                r = h(y=Tensor(c))
                if r.inputs.keys() - set(batch):
                    import z3
                    return [(z3.BoolVal(False) if mk.symbolic else False, None)]
                xs = [xv, C_]
                return [(value_cells(r, batch), [dense(W, P, b, xs) for b in itertools.product(*(range(n) for n in batch.values()))])]
        raise ValueError(kind)
    return ob


def _first(r):
    from harness.core import result_cells
    return result_cells(r, {})[()]


def worker(inst):
    from harness.oblig import decide
    tier = os.environ.get("VERIF_TIER", "quick")
    out = decide(str(inst), build_obligation(inst), timeout_ms=8000 if tier == "quick" else 60000, twin=True)
    out["prog"] = out["label"]
    return out


REAL_CFGS = [OrderedDict(x=()), OrderedDict(x=(), y=(2,)), OrderedDict(y=(2,), x=()), OrderedDict(x=(2,)), OrderedDict(x=(), y=(), z=()),
             OrderedDict(x=(2,), y=(2,)), OrderedDict(x=(2, 2)), OrderedDict(z=(), x=(2,), y=())]
BATCH_CFGS = [OrderedDict(), OrderedDict(i=2), OrderedDict(i=2, j=1), OrderedDict(j=2, i=2)]


def instances(tier, seed):
    rng = random.Random(seed)
    out = []

    def dim(reals):
        n = 0
        for s in reals.values():
            k = 1
            for t in s:
                k *= t
            n += k
        return n
    cfgs = []
    for reals in REAL_CFGS:
        d = dim(reals)
        for batch in BATCH_CFGS:
            ranks = sorted({0, 1, d, min(d + 1, 2 * d + 1), 2 * d + 1}) if tier != "quick" else sorted({1, d, d + 1})
            for rank in ranks:
                cfgs.append((batch, reals, rank))
    if tier == "quick":
        rng.shuffle(cfgs)
        cfgs = cfgs[:40]
    for batch, reals, rank in cfgs:
        out.append(("eval", batch, reals, rank))
        out.append(("mean", batch, reals, rank))
        names = list(reals)
        for k in range(1, len(names) + 1):
            for first in itertools.permutations(names, k):
                if tier == "quick" and rng.random() < 0.5:
                    continue
                out.append(("subs_real", batch, reals, rank, first, "call"))
                if k >= 2:
                    out.append(("subs_real", batch, reals, rank, first, "Subs"))
        if len(names) >= 3:
            out.append(("contraction_subs", batch, reals, rank))
        if batch:
            for how in ("number", "rename", "index_tensor", "slice"):
                if how == "slice" and next(iter(batch.values())) < 2:
                    continue
                out.append(("int", batch, reals, rank, how))
            out.append(("plate", batch, reals, rank))
            out.append(("cat", batch, reals, rank, max(1, rank - 1)))
        for form in ("one", "two", "kept", "rename_affine", "rename_affine_int"):
            out.append(("affine", batch, reals, rank, form))
    for b, part_name in ((OrderedDict(i=2), "i"), (OrderedDict(i=2, j=3), "i"), (OrderedDict(i=2, j=4), "i"), (OrderedDict(j=4, i=2), "i"), (OrderedDict(i=1, j=2, k=2), "j")):
        for reals in (OrderedDict(x=()), OrderedDict(x=(), y=(2,))):
            for cname in ("t", part_name):
                out.append(("cat", b, reals, 1, 1, cname, part_name))
    for b in (OrderedDict(i=2), OrderedDict(i=1, j=2)):
        for ra, rb in ((OrderedDict(x=()), OrderedDict(x=(), y=())), (OrderedDict(x=(), y=()), OrderedDict(x=())), (OrderedDict(x=(), y=()), OrderedDict(y=(), x=())),
                       (OrderedDict(x=()), OrderedDict(y=())), (OrderedDict(x=(), y=(2,)), OrderedDict(y=(2,), z=()))):
            out.append(("cat_hetero", b, ra, rb, 1))
    for b in (OrderedDict(i=2, j=2), OrderedDict(j=2, i=3), OrderedDict(i=2, j=2, k=2)):
        for reals in (OrderedDict(x=()), OrderedDict(x=(), y=(2,))):
            for rank in (1, 2):
                out.append(("int", b, reals, rank, "index_tensor"))
                out.append(("int", b, reals, rank, "rename"))
    pairs = []
    for b in BATCH_CFGS[:3]:
        for r1 in REAL_CFGS[:5]:
            for r2 in REAL_CFGS[:5]:
                pairs.append((b, r1, r2))
    rng.shuffle(pairs)
    for b, r1, r2 in pairs[:25 if tier == "quick" else 75]:
        shared = {k for k in r1 if k in r2 and r1[k] != r2[k]}
        if shared:
            continue
        order2 = tuple(reversed(list(b))) if len(b) > 1 else None
        out.append(("add", b, r1, max(1, dim(r1)), r2, dim(r2) + 1, order2))
    for loc in ("mean", "info_vec", "white_vec"):
        for sc in ("precision", "covariance", "scale_tril", "prec_sqrt"):
            out.append(("scalar_param", loc, sc))
    for b in BATCH_CFGS[:2]:
        for rank in (1, 2, 3):
            out.append(("lazy_nonaffine", b, rank))
            for how in ("reduce_add", "reduce_max", "reduce_min", "reduce_mul", "reduce_mulsum", "cube", "yexp"):
                out.append(("lazy_nonaffine", b, rank, how))
    return out


def main():
    chk = Check("C12", "model_checking")
    insts = instances(chk.tier, chk.seed)
    chk.map("checks.c12", "worker", insts, chunksize=3)
    chk.bounds = dict(real_inputs="1-3 inputs of shapes () (2,) (2,2), total dim <= 4", batch="0-2 inputs of sizes 1-2", ranks="0..2*dim+1 (quick: 1, dim, dim+1)",
                      operations=["evaluation at a symbolic point", "g1+g2 with different input orders", "complete/partial real substitution in every order (via __call__ and via Subs)",
                                  "integer index, index tensor (values enumerated) + simultaneous rename, slice, rename+align", "affine substitution in one / two variables / a kept input",
                                  "plate fusion reduce(add)", "mean x prec_sqrt", "1x1: {mean,info_vec,white_vec} x {precision,covariance,scale_tril,prec_sqrt}", "Cat along a batch input (same and different real inputs per part)",
                                  "lazy non-affine substitution followed by a chained substitution"])
    chk.assumptions = ["set_compression_threshold(inf): rank compression (QR) is outside the claim", "factorizations (cholesky/inverse) only for 1x1 matrices: sqrt cell with s >= 0 and s*s == t",
                       "restricted claim: parametrisations through precision/covariance/scale_tril for dim >= 2 are NOT covered"]
    chk.floor = 100
    chk.finish(rule="one instance per (batch inputs, real inputs, rank, operation); distinct = descriptor", trusted_base=["z3 5.1 (NRA)", "symx", "dense quadratic form in checks/c12.py"])


if __name__ == "__main__":
    main()
