"""C10 — Markov products equal the explicit left-to-right fold over time (Engine A)."""
import itertools
import os
import random
import sys

sys.path.insert(0, os.path.dirname(os.path.dirname(os.path.abspath(__file__))))

from harness.runner import Check  # noqa: E402

SEMIRINGS = [("add", "mul", "real"), ("logaddexp", "add", "log"), ("max", "add", "real"), ("min", "add", "real"), ("max", "mul", "nonneg")]
PAIR_NAMES = [("x_prev", "x_curr"), ("y", "next_y"), ("a", "d")]      # prev/curr names that sort differently


def fold_oracle(cfg, cells, env, C):
    """product of the per-step factors folded in time order with intermediate states summed out.
    cells: object ndarray with axes (time?, batch..., prev..., curr...) as described by cfg["axes"]"""
    T = cfg["duration"]
    pairs = cfg["pairs"]
    sizes = [s for _, _, s in pairs]
    states = list(itertools.product(*(range(s) for s in sizes)))
    axes = cfg["axes"]

    def cell(t, sp, sc):
        idx = []
        for kind, name in axes:
            if kind == "time":
                idx.append(t)
            elif kind == "batch":
                idx.append(env[name])
            elif kind == "prev":
                idx.append(sp[[p for p, _, _ in pairs].index(name)])
            else:
                idx.append(sc[[c for _, c, _ in pairs].index(name)])
        return cells[tuple(idx)]
    # R[s0][s] after t steps
    R = {(s0, s1): cell(0, s0, s1) for s0 in states for s1 in states}
    for t in range(1, T):
        R2 = {}
        for s0 in states:
            for s2 in states:
                R2[(s0, s2)] = C.fold(cfg["sum_op"], [C.BINARY[cfg["prod_op"]](R[(s0, s1)], cell(t, s1, s2)) for s1 in states])
        R = R2
    return R


def build_obligation(inst):
    kind = inst[0]
    if kind == "markov":
        _, cfg, variant = inst

        def ob(mk):
            import numpy as np
            from collections import OrderedDict
            import funsor
            import funsor.ops as ops
            from funsor import Bint, Tensor, Variable
            from funsor import sum_product as SP
            from funsor.interpretations import lazy
            from harness.core import result_cells
            from harness.oblig import Decline
            from lang import cellops as C
            from symx.symarray import as_obj
            sum_op, prod_op = getattr(ops, cfg["sum_op"]), getattr(ops, cfg["prod_op"])
            T = cfg["duration"]
            inputs = OrderedDict()
            for k, name in cfg["axes"]:
                if k == "time":
                    inputs["time"] = Bint[T]
                elif k == "batch":
                    inputs[name] = Bint[cfg["batch"][name]]
                else:
                    inputs[name] = Bint[[s for p, c, s in cfg["pairs"] if name in (p, c)][0]]
            a = mk.array("trans", tuple(d.size for d in inputs.values()), cfg["carrier"])
            trans = Tensor(a, inputs)
            time = Variable("time", Bint[T])
            step = {p: c for p, c, _ in cfg["pairs"]}
            try:
                if variant == "sequential":
                    r = SP.sequential_sum_product(sum_op, prod_op, trans, time, step)
                elif variant == "naive":
                    r = SP.naive_sequential_sum_product(sum_op, prod_op, trans, time, step)
                elif variant.startswith("mixed"):
                    r = SP.mixed_sequential_sum_product(sum_op, prod_op, trans, time, step, num_segments=int(variant[5:]))
                elif variant == "markov_eager":
                    r = SP.MarkovProduct(sum_op, prod_op, trans, time, step)
                elif variant == "markov_lazy":
                    with lazy:
                        r = SP.MarkovProduct(sum_op, prod_op, trans, time, step)
                    r = funsor.reinterpret(r)
                elif variant == "sequential_lazy":
                    with lazy:
                        r = SP.sequential_sum_product(sum_op, prod_op, trans, time, step)
                    r = funsor.reinterpret(r)
                else:
                    raise ValueError(variant)
            except (NotImplementedError, ValueError, AssertionError) as e:
                raise Decline("%s: %s" % (type(e).__name__, str(e)[:80]))
            want = set(cfg["batch"]) | {p for p, _, _ in cfg["pairs"]} | {c for _, c, _ in cfg["pairs"]}
            if "time" not in dict((k, n) for k, n in cfg["axes"]) or True:
                pass
            if not set(r.inputs) <= want:
                import z3
                return [(z3.BoolVal(False) if mk.symbolic else False, None)]
            cells = as_obj(a)
            got, exp = [], []
            sizes = [s for _, _, s in cfg["pairs"]]
            states = list(itertools.product(*(range(s) for s in sizes)))
            for b in itertools.product(*(range(n) for n in cfg["batch"].values())):
                env = dict(zip(cfg["batch"], b))
                R = fold_oracle(cfg, cells, env, C)
                for s0 in states:
                    for s1 in states:
                        pt = dict(env)
                        for (p, c, _), v0, v1 in zip(cfg["pairs"], s0, s1):
                            pt[p] = v0
                            pt[c] = v1
                        g = result_cells(r, pt)
                        got.append(g[()] if g.shape == () else g)
                        exp.append(R[(s0, s1)])
            return [(got, exp)]
        return ob

    if kind == "markov_binder":
        # the time variable of a lazily built MarkovProduct is BOUND: renaming a free batch input of the transition
        # onto the time variable's name (or any other name) must not be captured, also when the transition itself
        # does not depend on time
        _, T, S, sr, homogeneous, time_name, free_name, how = inst

        def ob(mk):
            import numpy as np
            from collections import OrderedDict
            import funsor
            import funsor.ops as ops
            from funsor import Bint, Tensor, Variable
            from funsor import sum_product as SP
            from funsor.interpretations import lazy, reflect
            from harness.core import result_cells
            from harness.oblig import Decline
            from lang import cellops as C
            from symx.symarray import as_obj
            sum_op, prod_op = getattr(ops, sr[0]), getattr(ops, sr[1])
            inputs = OrderedDict(b=Bint[T])
            if not homogeneous:
                inputs[time_name] = Bint[T]
            inputs["prev"] = Bint[S]
            inputs["curr"] = Bint[S]
            a = mk.array("trans", tuple(d.size for d in inputs.values()), sr[2])
            trans = Tensor(a, inputs)
            time = Variable(time_name, Bint[T])
            try:
                with (reflect if how == "reflect" else lazy):
                    mp = SP.MarkovProduct(sum_op, prod_op, trans, time, {"prev": "curr"})
                    sub = mp(b=Variable(free_name, Bint[T]))
                r = funsor.reinterpret(sub)
            except (NotImplementedError, ValueError, AssertionError) as e:
                raise Decline("%s: %s" % (type(e).__name__, str(e)[:80]))
            import z3
            side = set(r.inputs) == {free_name, "prev", "curr"}
            pairs = [(z3.BoolVal(side) if mk.symbolic else side, None)]
            if not side:
                return pairs
            cells = as_obj(a)
            cfg = dict(duration=T, pairs=[("prev", "curr", S)], sum_op=sr[0], prod_op=sr[1],
                       axes=[("batch", "b")] + ([] if homogeneous else [("time", time_name)]) + [("prev", "prev"), ("curr", "curr")])
            got, exp = [], []
            for b in range(T):
                R = fold_oracle(cfg, cells, dict(b=b), C)
                for s0 in range(S):
                    for s1 in range(S):
                        g = result_cells(r, {free_name: b, "prev": s0, "curr": s1})
                        got.append(g[()])
                        exp.append(R[((s0,), (s1,))])
            pairs.append((got, exp))
            return pairs
        return ob

    if kind == "sarkka":
        _, cfg = inst

        def ob(mk):
            import numpy as np
            from collections import OrderedDict
            import funsor.ops as ops
            from funsor import Bint, Tensor, Variable
            from funsor import sum_product as SP
            from harness.core import result_cells
            from harness.oblig import Decline
            sum_op, prod_op = getattr(ops, cfg["sum_op"]), getattr(ops, cfg["prod_op"])
            T = cfg["duration"]
            inputs = OrderedDict(time=Bint[T])
            for name in cfg["names"]:
                inputs[name] = Bint[2]
            for g_ in cfg.get("globals", ()):
                inputs[g_] = Bint[2]
            a = mk.array("trans", tuple(d.size for d in inputs.values()), cfg["carrier"])
            trans = Tensor(a, inputs)
            time = Variable("time", Bint[T])
            gv = frozenset(cfg.get("globals", ()))
            try:
                r1 = SP.sarkka_bilmes_product(sum_op, prod_op, trans, time, gv, num_periods=cfg["num_periods"])
                r2 = SP.naive_sarkka_bilmes_product(sum_op, prod_op, trans, time, gv)
            except (NotImplementedError, ValueError, AssertionError) as e:
                raise Decline("%s: %s" % (type(e).__name__, str(e)[:80]))
            if set(r1.inputs) != set(r2.inputs):
                import z3
                return [(z3.BoolVal(False) if mk.symbolic else False, None)]
            names = list(r2.inputs)
            got, exp = [], []
            for pt in itertools.product(*(range(r2.inputs[n].size) for n in names)):
                env = dict(zip(names, pt))
                g, e = result_cells(r1, env), result_cells(r2, env)
                got.append(g[()])
                exp.append(e[()])
            return [(got, exp)]
        return ob
    raise ValueError(kind)


def worker(inst):
    from harness.oblig import decide
    from symx.symarray import use_logsumexp_spec
    use_logsumexp_spec()
    tier = os.environ.get("VERIF_TIER", "quick")
    out = decide(_label(inst), build_obligation(inst), timeout_ms=6000 if tier == "quick" else 20000, twin=True)
    out["prog"] = out["label"]
    return out


def _label(inst):
    if inst[0] == "markov":
        c = inst[1]
        return "%s|%s/%s|T=%d pairs=%s batch=%s axes=%s" % (inst[2], c["sum_op"], c["prod_op"], c["duration"], [(p, q, s) for p, q, s in c["pairs"]], c["batch"], [n for _, n in c["axes"]])
    if inst[0] == "markov_binder":
        return "markov_binder|%s/%s|T=%d S=%d homogeneous=%s time=%r free=%r built under %s" % (inst[3][0], inst[3][1], inst[1], inst[2], inst[4], inst[5], inst[6], inst[7])
    c = inst[1]
    return "sarkka|%s/%s|T=%d names=%s globals=%s periods=%d" % (c["sum_op"], c["prod_op"], c["duration"], c["names"], list(c.get("globals", ())), c["num_periods"])


def instances(tier, seed):
    rng = random.Random(seed)
    out = []
    maxT = 8 if tier == "quick" else 12
    for sum_op, prod_op, car in SEMIRINGS:
        for T in range(1, maxT + 1):
            if prod_op == "mul" and sum_op in ("max", "min") and T > (4 if tier == "quick" else 5):
                continue        # nonlinear max-of-products chains: z3 does not finish beyond this
            for npairs in (1, 2) if tier == "quick" else (1, 2, 3):
                reps = 1 if tier == "quick" else 2
                for _ in range(reps):
                    names = rng.sample(PAIR_NAMES, npairs)
                    size = 2 if (npairs > 1 or T > 6) else rng.choice([1, 2, 3] if tier != "quick" else [2, 3])
                    pairs = [(p, c, (size if npairs == 1 else rng.choice([1, 2]))) for p, c in names]
                    nb = rng.choice([0, 1]) if tier == "quick" else rng.choice([0, 1, 2])
                    batch = {"b%d" % i: rng.choice([1, 2]) for i in range(nb)}
                    has_time = rng.random() < 0.85
                    axes = ([("time", "time")] if has_time else []) + [("batch", b) for b in batch] + [("prev", p) for p, _, _ in pairs] + [("curr", c) for _, c, _ in pairs]
                    rng.shuffle(axes)
                    nstates = 1
                    for _, _, s in pairs:
                        nstates *= s
                    if nstates ** 2 * T > 600:
                        continue
                    cfg = dict(sum_op=sum_op, prod_op=prod_op, carrier=car, duration=T, pairs=pairs, batch=batch, axes=axes)
                    variants = ["sequential", "naive", "markov_eager", "markov_lazy", "sequential_lazy"] + ["mixed%d" % k for k in range(1, T + 1)]
                    if tier == "quick":
                        variants = ["sequential"] + rng.sample(variants[1:], min(2, len(variants) - 1))
                    for v in variants:
                        if not has_time and v.startswith(("naive",)):
                            continue
                        out.append(("markov", cfg, v))
    # two state pairs of EQUAL size whose prev names and curr names sort in different orders, every variant
    for sum_op, prod_op, car in SEMIRINGS[:3]:
        for names in ([("x_prev", "x_curr"), ("y", "next_y")], [("a", "d"), ("y", "next_y")], [("a", "z9"), ("b", "y9")]):
            for T in (2, 3, 5):
                pairs = [(p, c, 2) for p, c in names]
                axes = [("time", "time")] + [("prev", p) for p, _, _ in pairs] + [("curr", c) for _, c, _ in pairs]
                cfg = dict(sum_op=sum_op, prod_op=prod_op, carrier=car, duration=T, pairs=pairs, batch={}, axes=axes)
                for v in ["sequential", "naive", "markov_eager", "markov_lazy"] + ["mixed%d" % k for k in range(1, T + 1)]:
                    out.append(("markov", cfg, v))
    # NO state pairs (the empty set of previous-to-current pairs): the Markov product of a time-dependent transition is
    # the plain product of its per-step factors (round-6 seeded change; fixed programs, after the seeded ones)
    for sum_op, prod_op, car in SEMIRINGS:
        for T in (1, 2, 3):
            for batch in ({}, {"b0": 2}):
                axes = [("batch", b) for b in batch] + [("time", "time")]
                cfg = dict(sum_op=sum_op, prod_op=prod_op, carrier=car, duration=T, pairs=[], batch=batch, axes=axes)
                for v in ("markov_eager", "markov_lazy"):
                    out.append(("markov", cfg, v))
    # the time variable is a binder: renaming a free batch input onto its name must not be captured
    for sr in SEMIRINGS[:2]:
        for T in ((2,) if tier == "quick" else (2, 3, 4)):
            for homogeneous in (True, False):
                for time_name, free_name in (("time", "c"), ("t", "time"), ("time", "time"), ("t", "t")):
                    for how in ("reflect", "lazy"):
                        out.append(("markov_binder", T, 2, sr, homogeneous, time_name, free_name, how))
    # time-lagged models
    lagsets = [(1,), (2,), (1, 2), (3,), (1, 3), (2, 3), (1, 2, 3)]
    for sum_op, prod_op, car in SEMIRINGS[:3] if tier == "quick" else SEMIRINGS:
        for lags in lagsets:
            for T in range(1, (7 if tier == "quick" else 9)):
                if tier == "quick" and rng.random() < 0.5:
                    continue
                names = ["x"] + ["_PREV_" * l + "x" for l in lags]
                glob = ("g",) if rng.random() < 0.3 else ()
                if 2 ** (len(names) + len(glob)) * T > 200:
                    continue
                for npd in (1, 2) if tier == "quick" else (1, 2, 3):
                    out.append(("sarkka", dict(sum_op=sum_op, prod_op=prod_op, carrier=car, duration=T, names=names, globals=glob, num_periods=npd)))
    return out


def main():
    chk = Check("C10", "model_checking")
    insts = instances(chk.tier, chk.seed)
    chk.map("checks.c10", "worker", insts, chunksize=4)
    chk.bounds = dict(durations="1..8 | 1..12", state_pairs="0 (MarkovProduct only, time-dependent transition), 1-2 | 1-3 (names chosen so that prev and curr names sort differently)", state_sizes="1-3", batch_inputs="0-1 | 0-2",
                      num_segments="1..duration (seeded subset in quick)", lag_sets="subsets of {1,2,3}", semirings=[s[:2] for s in SEMIRINGS])
    chk.assumptions = ["assume-guarantee cut: funsor.ops.logsumexp on symbolic arrays is replaced by its specification (decided on its own under C01/C15); maxima of ops.detach()ed log-space arrays are abstracted to arbitrary positive shifts", "sarkka_bilmes_product is compared relationally with naive_sarkka_bilmes_product (both real code over the same symbols)",
                       "the unbounded-duration index lemmas are the Slice/Cat lemmas decided under C04"]
    chk.floor = 150
    chk.finish(rule="one instance per (semiring, duration, state pairs, batch, axis order, variant); distinct = descriptor",
               trusted_base=["z3 5.1", "symx", "explicit matrix-chain fold in checks/c10.py"])


if __name__ == "__main__":
    main()
