"""C17 — interpretation contexts nest and unwind like a stack (Engine B, one inductive step from a symbolic
pre-stack; exception position symbolic)."""
import os
import sys

sys.path.insert(0, os.path.dirname(os.path.dirname(os.path.abspath(__file__))))

from harness.runner import Check  # noqa: E402

KINDS = ["eager", "lazy", "reflect", "normalize", "sequential", "moment_matching", "memoize", "user_partial", "adjoint", "user_partial2", "memoize_partial"]
TOTAL_KINDS = 6   # the first six are total interpretations that may sit on the raw stack
FORMS = ["with", "decorator", "memoize()", "interpretation()"]


class Boom(Exception):
    pass


def step_fn(kind, form, max_extra, inner_depth, with_reentry=False):
    import z3
    import funsor
    import funsor.interpreter as IP
    import funsor.ops as ops
    from funsor import Real
    from funsor.adjoint import AdjointTape
    from funsor.interpretations import (DispatchedInterpretation, Memoize, PrioritizedInterpretation, eager, lazy, memoize,
                                        moment_matching, normalize, reflect, sequential)
    from funsor.terms import Binary, Funsor, Number, Variable
    from symx import engine

    user_partial = DispatchedInterpretation("user_partial")
    MARK = Number(12345.0)

    @user_partial.register(Binary, ops.SubOp if hasattr(ops, "SubOp") else type(ops.sub), Funsor, Funsor)
    def _mark(op, lhs, rhs):
        return MARK

    MARKN = Number(888.0)

    @user_partial.register(Number, float, str)
    def _mark_number(data, dtype):       # a rule keyed on the ground class Number: constants are interpreted too
        return MARKN if data == 777.0 else None

    import numpy as _np
    from funsor import Bint as _Bint
    from funsor.tensor import Tensor as _Tensor
    TSUB = _Tensor(_np.array([10.0, 20.0, 30.0]), {"i": _Bint[3]})
    IDX_BAD = _Tensor(_np.array([0, 7]), {"j": _Bint[2]}, 3)          # 7 is out of range: numpy raises inside eager_subs
    IDX_GOOD = _Tensor(_np.array([2, 0]), {"j": _Bint[2]}, 3)

    PRE777 = Number(777.0)                       # built outside every context
    with lazy:
        PRE_EXPR = Variable("x", Real) + PRE777      # a lazy term holding that constant

    def reinterpret_probe(k):
        """funsor.reinterpret rebuilds EVERY node - constants included - under the active interpretation"""
        if k != "user_partial":
            return
        if funsor.reinterpret(PRE777) is not MARKN:
            raise AssertionError("reinterpret of a constant under a partial interpretation with a rule on Number did not apply the rule")
        return funsor.reinterpret(PRE_EXPR)

    def failing_substitution():
        """a user error raised in the middle of a substitution and caught by the user must not disturb the stack"""
        before = list(IP._STACK)
        try:
            TSUB(i=IDX_BAD)
        except IndexError:
            pass
        after = list(IP._STACK)
        if not (len(before) == len(after) and all(a is b for a, b in zip(before, after))):
            raise AssertionError("a substitution that raised (and was caught) left the stack changed: %s -> %s" % (before, after))
        TSUB(i=IDX_GOOD)

    user_partial2 = DispatchedInterpretation("user_partial2")
    MARK2 = Number(54321.0)

    @user_partial2.register(Binary, type(ops.sub), Funsor, Funsor)
    def _mark2(op, lhs, rhs):
        return MARK2

    def make(k):
        table = {"eager": eager, "lazy": lazy, "reflect": reflect, "normalize": normalize, "sequential": sequential,
                 "moment_matching": moment_matching, "user_partial": user_partial, "user_partial2": user_partial2}
        if k in table:
            return table[k]
        if k == "memoize":
            return Memoize(IP.get_interpretation())
        if k == "memoize_partial":      # "memoize only my layer": Memoize around a PARTIAL interpretation is itself partial
            return Memoize(user_partial)
        return AdjointTape()

    def choose(name, n):
        v = z3.Int(engine.fresh_name(name))
        engine.assume(z3.And(v >= 0, v < n))
        for i in range(n - 1):
            if engine.fork(v == i):
                return i
        return n - 1

    SAVED = list(IP._STACK)

    def expected_probe(stack_top, pre_top_total):
        """class name of `Variable + Number` and of `Variable - Number` under the entered context"""
        return None

    def nested(depth):
        """an arbitrary well-nested block inside the body (unrolled cross-check of the induction hypothesis)"""
        if depth == 0:
            return
        k = KINDS[choose("nest", len(KINDS))]
        r = choose("nraise", 2)
        before = list(IP._STACK)
        try:
            ni = make(k)
            with ni:
                top = IP.get_interpretation()
                if getattr(ni, "is_total", False):
                    if top is not ni:
                        raise AssertionError("nested: top %r is not the entered total interpretation %r" % (top, ni))
                elif not (isinstance(top, PrioritizedInterpretation) and top.subinterpretations[0] is ni
                          and tuple(top.subinterpretations[1:]) == tuple(before[-1].subinterpretations)):
                    raise AssertionError("nested: partial interpretation %s not layered on top of the previous one: %r over %r" % (k, top, before[-1]))
                if k in ("user_partial", "user_partial2", "memoize_partial"):
                    got = Variable("x", Real) - Number(1.0)
                    if got is not (MARK2 if k == "user_partial2" else MARK):
                        raise AssertionError("nested: the innermost partial interpretation %s did not interpret its pattern (got %r)" % (k, got))
                if k == "user_partial" and Number(777.0) is not MARKN:
                    raise AssertionError("nested: the partial interpretation's rule on Number constants did not run")
                reinterpret_probe(k)
                if (Variable("x", Real) + Number(1.0)) is None:
                    raise AssertionError("nested: a term the partial interpretation %s declines was not passed to the enclosing one" % k)
                (Variable("x", Real) + 1)(x=2.0)        # substitute() pushes and pops a temporary interpretation
                failing_substitution()
                nested(depth - 1)
                if r == 0:
                    raise Boom()
        except Boom:
            pass
        after = list(IP._STACK)
        if not (len(before) == len(after) and all(a is b for a, b in zip(before, after))):
            raise AssertionError("nested block did not restore the stack (kind %s, raise %s)" % (k, r == 0))

    def step():
        IP._STACK[:] = SAVED
        try:
            depth = choose("depth", max_extra + 1)
            interp = None
            if with_reentry and kind != "memoize" and form != "memoize()":
                # the SAME interpretation object may have been entered (and left, normally or by exception) before,
                # under a different enclosing context: nothing of that earlier entry may leak into this one
                reenter = 1 + choose("reenter", 2)      # 1 = used before and left normally, 2 = left by exception
                if reenter:
                    interp = make(kind)
                    first_pre = choose("first_pre", TOTAL_KINDS)
                    IP._STACK.append(make(KINDS[first_pre]))
                    try:
                        with interp:
                            Variable("x", Real) + Number(2.0)
                            if reenter == 2:
                                raise Boom()
                    except Boom:
                        pass
                    IP._STACK.pop()
            ctxobj = None
            if form == "interpretation()" and kind != "memoize":
                # the deprecated spelling `with interpretation(x)`: the object may be created in one context and
                # entered in another
                import warnings
                interp = interp if interp is not None else make(kind)
                with warnings.catch_warnings():
                    warnings.simplefilter("ignore")
                    ctxobj = IP.interpretation(interp)
            pre_kinds = []
            for d in range(depth):
                k = choose("pre%d" % d, TOTAL_KINDS)
                pre_kinds.append(KINDS[k])
                IP._STACK.append(make(KINDS[k]))
            pre = list(IP._STACK)
            raise_at = choose("raise_at", 4)     # 0..2 = position in body, 3 = no exception
            if interp is None:
                interp = make(kind)
            seen = {}

            def body():
                seen["top"] = IP.get_interpretation()
                for pos in range(3):
                    if raise_at == pos:
                        raise Boom()
                    if pos == 0:
                        nested(inner_depth)
                    if pos == 1:
                        failing_substitution()
                        seen["probe_num"] = Number(777.0)
                        seen["probe_reint"] = reinterpret_probe(kind)
                        seen["probe_add"] = Variable("x", Real) + Number(1.0)
                        seen["probe_sub"] = Variable("x", Real) - Number(1.0)
                        seen["top_after_nested"] = IP.get_interpretation()
                return True
            try:
                if form == "with":
                    with interp:
                        body()
                elif form == "interpretation()":
                    if ctxobj is None:
                        import warnings
                        with warnings.catch_warnings():
                            warnings.simplefilter("ignore")
                            ctxobj = IP.interpretation(interp)
                    with ctxobj:
                        body()
                elif form == "decorator":
                    interp(body)()
                else:
                    with memoize():
                        body()
            except Boom:
                pass
            post = list(IP._STACK)
            res = dict(kind=kind, form=form, raise_at=raise_at, pre=pre_kinds, ok=True, why="")
            if not (len(post) == len(pre) and all(a is b for a, b in zip(pre, post))):
                res.update(ok=False, why="stack after exit differs from the stack before entry: %s vs %s" % (post, pre))
                return res
            if not (post[0] is SAVED[0] and post[1] is SAVED[1]):
                res.update(ok=False, why="base interpretations were popped")
                return res
            top = seen.get("top")
            prev = pre[-1]
            if form == "memoize()":
                if not isinstance(top, Memoize):
                    res.update(ok=False, why="memoize(): top is %r" % (top,))
            elif getattr(interp, "is_total", False):
                if top is not interp:
                    res.update(ok=False, why="inside: top %r is not the entered interpretation %r" % (top, interp))
            else:
                if not (isinstance(top, PrioritizedInterpretation) and top.subinterpretations[0] is interp
                        and tuple(top.subinterpretations[1:]) == tuple(prev.subinterpretations)):
                    res.update(ok=False, why="partial interpretation not layered over the previous top: %r" % (top,))
            if res["ok"] and "top_after_nested" in seen and seen["top_after_nested"] is not top:
                res.update(ok=False, why="top changed after a nested block")
            # terms built inside are interpreted by the innermost context (partial ones fall through)
            if res["ok"] and "probe_add" in seen and form != "memoize()":
                pa, ps = seen["probe_add"], seen["probe_sub"]
                enclosing = kind if kind not in ("user_partial", "user_partial2", "adjoint", "memoize", "memoize_partial") else (pre_kinds[-1] if pre_kinds else "eager")
                lazy_like = enclosing in ("lazy", "reflect")
                if kind in ("user_partial", "user_partial2", "memoize_partial"):
                    if ps is not (MARK2 if kind == "user_partial2" else MARK):
                        res.update(ok=False, why="user partial interpretation's rule did not run for its pattern")
                    if pa is None:
                        res.update(ok=False, why="a term the partial interpretation declines was not passed to the enclosing interpretation (got None)")
                    if kind == "user_partial" and seen.get("probe_reint") is not None:
                        with eager:       # the pre-stack entries are still in place here: evaluate the probe under plain eager
                            v = funsor.reinterpret(seen["probe_reint"](x=1.0))
                        if not (isinstance(v, Number) and v.data == 889.0):
                            res.update(ok=False, why="reinterpret(x + 777) under the partial interpretation did not re-interpret the constant: value at x=1 is %r, expected 889" % (v,))
                    if kind == "user_partial" and seen.get("probe_num") is not MARKN:
                        res.update(ok=False, why="user partial interpretation's rule on Number constants did not run (got %r)" % (seen.get("probe_num"),))
                if res["ok"] and kind != "normalize" and enclosing != "normalize":
                    is_lazy = type(pa).__name__.startswith("Binary")
                    if lazy_like != is_lazy:
                        res.update(ok=False, why="probe term %s under %s (enclosing %s)" % (type(pa).__name__, kind, enclosing))
            return res
        finally:
            IP._STACK[:] = SAVED
    return step


def worker(inst):
    from symx import engine
    kind, form, max_extra, inner_depth = inst[:4]
    step = step_fn(kind, form, max_extra, inner_depth, with_reentry=len(inst) > 4 and inst[4] == "reentry")
    out = dict(status="ok", label=str(inst), detail="", paths=0, nontrivial=True, obligations=0, discharged=0)
    try:
        paths = engine.explore(step, max_paths=20000)
    except engine.PathCapExceeded:
        out.update(status="inconclusive", detail="path cap")
        return out
    out["paths"] = len(paths)
    for pr in paths:
        out["obligations"] += 1
        if pr.exc is not None:
            out.update(status="violation", kind="stack", detail="%s: %s" % (type(pr.exc).__name__, str(pr.exc)[:300]))
            return out
        r = pr.value
        if not r["ok"]:
            out.update(status="violation", kind="stack", detail="kind=%s form=%s raise_at=%s pre=%s: %s" % (
                r["kind"], r["form"], r["raise_at"], r["pre"], r["why"]), replay=r)
            return out
        out["discharged"] += 1
    out["twin"] = "sat" if len(paths) > 1 else None
    return out


def main():
    chk = Check("C17", "model_checking")
    tier = chk.tier
    insts = []
    for k in KINDS:
        for f in FORMS:
            if f == "memoize()" and k != "memoize":
                continue
            if f == "interpretation()" and k not in ("user_partial", "adjoint", "lazy", "memoize"):
                continue
            if tier == "quick":
                insts.append((k, f, 1, 2 if k == "user_partial" and f == "with" else 1))
            else:
                insts.append((k, f, 2, 1))
                if k in ("user_partial", "adjoint", "memoize"):
                    insts.append((k, f, 1, 2))
            if k not in ("memoize", "memoize_partial") and f != "memoize()":
                insts.append((k, f, 1 if tier == "quick" else 2, 0, "reentry"))
    chk.map("checks.c17", "worker", insts, chunksize=1)
    chk.bounds = dict(pre_stack_extra_entries="<=1 (quick) / <=2", reentry="the same interpretation object entered before under another enclosing context (left normally / by exception)", kinds=KINDS, forms=FORMS, exception_positions=4,
                      nested_blocks_depth="1-2", induction="one step from an arbitrary valid pre-stack; nested blocks unrolled as cross-check")
    chk.assumptions = ["exits are properly nested (the property's precondition)", "instrument.DEBUG mode not covered",
                       "solver work = feasibility of the symbolic choices (depth, kinds, raise position); assertion checks are concrete per path"]
    chk.extra_cov = dict(states=sum(o.get("paths", 0) for o in chk.outcomes), transitions=sum(o.get("paths", 0) for o in chk.outcomes),
                         traces_validated_against_impl=sum(o.get("paths", 0) for o in chk.outcomes))
    chk.floor = 10
    chk.finish(rule="one instance per (entered kind, entry form); inside it every feasible path over (pre-stack depth and kinds, exception position, nested block kinds) is executed on the real code; distinct = instance descriptor",
               trusted_base=["z3 5.1 (path feasibility)", "symx.engine"])


if __name__ == "__main__":
    main()
