"""C15 — op tables are truthful; ops agree across scalar / 0-d / array operands; log-space limits; NaN-freedom
of the safe kernels (z3 FloatingPoint theory)."""
import itertools
import math
import os
import sys

sys.path.insert(0, os.path.dirname(os.path.dirname(os.path.abspath(__file__))))

from harness.runner import Check  # noqa: E402

# carrier on which each table entry is declared (from the property text)
OP_CARRIER = {"add": "real", "mul": "real", "max": "real", "min": "real", "and_": "bool", "or_": "bool", "xor": "bool",
              "logaddexp": "log", "sample": "logfinite"}
PAIR_CARRIER = {("add", "mul"): "real", ("max", "mul"): "nonneg", ("min", "mul"): "nonneg", ("max", "add"): "real",
                ("min", "add"): "real", ("or_", "and_"): "bool", ("logaddexp", "add"): "log", ("sample", "add"): "logfinite"}
SHAPES_Q = [None, (), (3,), (3, 2)]          # None = python scalar
SHAPES_T = [None, (), (3,), (3, 2), (2, 2, 2)]


def _install_scalar_models():
    """libm is the FFI boundary for scalar ops: math.exp & co. get SV models (funsor's python-level defaults -
    log's branch, sigmoid, softplus, logaddexp's shift, safesub/safediv/reciprocal - run for real)."""
    import funsor.ops as ops
    import funsor.ops.builtin as B
    from symx.sv import SV
    if getattr(B, "_verif_scalar_models", False):
        return
    B._verif_scalar_models = True
    for name, meth in [("exp", "exp"), ("tanh", "tanh"), ("atanh", "arctanh"), ("lgamma", "lgamma"),
                       ("log1p", "log1p"), ("sqrt", "sqrt")]:
        getattr(ops, name).register(SV)(lambda x, meth=meth: getattr(x, meth)())

    class MathProxy:
        def __getattr__(self, n):
            return getattr(math, n)

        @staticmethod
        def log(x):
            return x.log() if isinstance(x, SV) else math.log(x)

        @staticmethod
        def exp(x):
            return x.exp() if isinstance(x, SV) else math.exp(x)
    B.math = MathProxy()


def _mk(mk, name, shape, carrier):
    if isinstance(shape, tuple) and shape and shape[0] == "c":      # a concrete python scalar (real dispatch on int/float)
        return shape[1]
    return mk.scalar(name, carrier) if shape is None else mk.array(name, shape, carrier)


CONSTS = {"real": [2.0, -1.5, 0.0], "nonneg": [2.0, 0.0], "pos": [2.0, 0.5], "log": [math.log(2.0), 0.0, -math.inf], "logfinite": [math.log(2.0), 0.0], "bool": [True, False]}


def _cellwise(f, *xs):
    """oracle applied cell by cell with numpy broadcasting (values may be python scalars / SV / arrays)"""
    import numpy as np
    from symx.symarray import as_obj
    if not any(isinstance(x, np.ndarray) for x in xs):
        return f(*xs)
    arrs = [as_obj(x) if isinstance(x, np.ndarray) else as_obj(x) for x in xs]
    bs = np.broadcast_arrays(*arrs)
    out = np.empty(bs[0].shape, dtype=object)
    for idx in np.ndindex(*bs[0].shape):
        out[idx] = f(*[b[idx] for b in bs])
    return out


def _unit_value(u):
    return u


def build_obligation(inst):
    import numpy as np
    import funsor.ops as ops
    from lang import cellops as C
    kind = inst[0]
    O = lambda n: getattr(ops, n)  # noqa

    if kind == "unit":
        _, opn, shape, side = inst
        car = OP_CARRIER[opn]
        unit = ops.UNITS[O(opn)]

        if shape is None and car == "log":
            # scalar default of logaddexp with a -inf unit: the python-level code goes through float NaN for
            # (-inf, -inf) and still returns -inf; NaN is not representable symbolically, so the symbolic scalar ranges
            # over finite log values and the (-inf, -inf) corner is a concrete edge check (kind "edge")
            car = "logfinite"

        def ob(mk):
            x = _mk(mk, "x", shape, car)
            got = O(opn)(unit, x) if side == "l" else O(opn)(x, unit)
            return [(got, x)]
        return ob
    if kind == "edge":
        _, opn, a, b, want = inst

        def ob(mk):
            import z3
            import warnings
            with warnings.catch_warnings():
                warnings.simplefilter("ignore")
                got = O(opn)(a, b)
            ok = (got == want) or (got != got and want != want)
            return [(z3.BoolVal(bool(ok)) if mk.symbolic else bool(ok), None)]
        return ob
    if kind == "edge1":
        # unary op on concrete python scalars / 0-d arrays of the boolean carrier (python's own operators differ from
        # numpy's there: ~True == -2)
        _, opn, a, want = inst

        def ob(mk):
            import z3
            got = O(opn)(a)
            ok = bool(got == want) and (isinstance(want, bool) <= (not isinstance(got, (int,)) or isinstance(got, bool)))
            return [(z3.BoolVal(bool(ok)) if mk.symbolic else bool(ok), None)]
        return ob
    if kind == "distrib":
        _, addn, muln, shapes = inst
        car = PAIR_CARRIER[(addn, muln)]
        if car == "log" and all(sh is None for sh in shapes):
            car = "logfinite"      # scalar defaults go through float NaN at (-inf,-inf): covered by the "edge" instances

        def ob(mk):
            x, y, z = [_mk(mk, n, s, car) for n, s in zip("xyz", shapes)]
            lhs = O(muln)(x, O(addn)(y, z))
            rhs = O(addn)(O(muln)(x, y), O(muln)(x, z))
            # also against the textbook cells
            ba = C.BINARY["logaddexp" if addn == "sample" else addn]
            bm = C.BINARY[muln]
            exp = _cellwise(lambda a, b, c: bm(a, ba(b, c)), x, y, z)
            return [(lhs, rhs), (lhs, exp)]
        return ob
    if kind == "binv":
        _, table, opn, shapes = inst
        tab = ops.BINARY_INVERSES if table == "BINARY_INVERSES" else ops.SAFE_BINARY_INVERSES
        inv = tab[O(opn)]
        car = OP_CARRIER[opn]

        def ob(mk):
            x = _mk(mk, "x", shapes[0], car)
            y = _mk(mk, "y", shapes[1], "pos" if opn == "mul" else car)
            return [(inv(O(opn)(x, y), y), _cellwise(lambda a, b: a, x, y))]
        return ob
    if kind == "uinv":
        _, opn, shape = inst
        inv = ops.UNARY_INVERSES[O(opn)]
        unit = ops.UNITS[O(opn)]

        def ob(mk):
            x = _mk(mk, "x", shape, "pos" if opn == "mul" else "real")
            return [(O(opn)(x, inv(x)), _cellwise(lambda a: unit, x))]
        return ob
    if kind == "power":
        _, opn, n, shape = inst
        pw = ops.PRODUCT_TO_POWER[O(opn)]

        def ob(mk):
            x = _mk(mk, "x", shape, "real")
            exp = _cellwise(lambda a: C.fold(opn, [a] * n), x)
            return [(pw(x, n), exp)]
        return ob
    if kind == "agree1":
        _, opn, car = inst

        def ob(mk):
            from symx.symarray import from_cells
            xs = [mk.scalar("x%d" % i, car) for i in range(3)]
            a0 = _arr(mk, xs[:1], ())
            a3 = _arr(mk, xs, (3,))
            s = O(opn)(xs[0])
            exp = C.UNARY[opn](xs[0])
            return [(s, exp), (O(opn)(a0), exp), (O(opn)(a3), [C.UNARY[opn](x) for x in xs])]
        return ob
    if kind == "agree2":
        _, opn, car, cary = inst

        def ob(mk):
            xs = [mk.scalar("x%d" % i, car) for i in range(3)]
            ys = [mk.scalar("y%d" % i, cary) for i in range(3)]
            f = C.BINARY[opn]
            exp = f(xs[0], ys[0])
            X0, Y0, X3, Y3 = _arr(mk, xs[:1], ()), _arr(mk, ys[:1], ()), _arr(mk, xs, (3,)), _arr(mk, ys, (3,))
            X32 = _arr(mk, xs + xs, (2, 3))
            out = [(O(opn)(xs[0], ys[0]), exp), (O(opn)(X0, Y0), exp),
                   (O(opn)(X3, Y3), [f(a, b) for a, b in zip(xs, ys)]),
                   (O(opn)(X32, Y3), [f(a, b) for a, b in zip(xs + xs, ys + ys)])]
            return out
        return ob
    if kind == "logsumexp":
        _, shape, axis, keepdims = inst

        def ob(mk):
            from lang.denote import _fold_axis
            x = mk.array("x", shape, "log")
            got = ops.logsumexp(x, axis, keepdims)
            exp = _fold_axis("logaddexp", x, axis, keepdims)
            return [(got, exp)]
        return ob
    if kind == "einsum":
        _, backend, eq, shapes = inst

        def ob(mk):
            import importlib
            from lang.denote import denote
            from lang.prog import einsum as P_einsum, leaf
            be = importlib.import_module(backend)
            car = "log" if backend.endswith("numpy_log") else "real"
            xs = [mk.array("x%d" % i, s, car) for i, s in enumerate(shapes)]
            got = be.einsum(eq, *xs)
            # oracle: sum-product in the backend's semiring
            ins_s, out_s = eq.split("->")
            ins_s = ins_s.split(",")
            sizes = {}
            for s, x in zip(ins_s, xs):
                for ch, n in zip(s, x.shape):
                    sizes[ch] = n
            summed = sorted(set("".join(ins_s)) - set(out_s))
            addn = "logaddexp" if car == "log" else "max"
            from symx.symarray import as_obj
            raw = [as_obj(x) for x in xs]
            exp = np.empty(tuple(sizes[c] for c in out_s), dtype=object)
            for oidx in np.ndindex(*exp.shape):
                asg = dict(zip(out_s, oidx))
                terms = []
                for sidx in itertools.product(*(range(sizes[c]) for c in summed)):
                    asg.update(zip(summed, sidx))
                    terms.append(C.fold("add", [r[tuple(asg[c] for c in s)] for s, r in zip(ins_s, raw)]))
                exp[oidx] = C.fold(addn, terms)
            return [(got, exp)]
        return ob
    raise ValueError(kind)


def _arr(mk, cells, shape):
    import numpy as np
    if mk.symbolic:
        from symx.symarray import from_cells
        return from_cells(list(cells), shape)
    kinds = {type(c) for c in cells}
    dt = bool if kinds <= {bool} else np.int64 if kinds <= {int, bool} else np.float64
    return np.array(list(cells), dtype=dt).reshape(shape)


def worker(inst):
    from harness.oblig import decide
    from symx.symarray import install
    install()
    _install_scalar_models()
    if inst[0] == "fp":
        return fp_kernel(inst)
    if inst[0] == "fpshift":
        return fp_shift(inst)
    if inst[0] == "fpstab":
        return fp_stability(inst)
    ob = build_obligation(inst)
    tier = os.environ.get("VERIF_TIER", "quick")
    out = decide(str(inst), ob, timeout_ms=8000 if tier == "quick" else 60000, twin=True)
    return out


# ---------------------------------------------------------------------------------------------------
# FloatingPoint kernels: NaN-freedom over ALL of float64, formula regenerated from the current source
# ---------------------------------------------------------------------------------------------------

def _fp_translate(fn_name, local=None):
    """AST -> z3 FP term of the one-line array kernels `_safediv`, `_safesub`, `_reciprocal`; with `local`, the
    term of that local variable (the stabilising `shift` of the logaddexp kernels) instead of the return value"""
    import ast
    import inspect
    import z3
    import funsor.ops.array as A
    fn = getattr(A, fn_name)
    while hasattr(fn, "__wrapped__"):
        fn = fn.__wrapped__
    src = inspect.getsource(fn)
    tree = ast.parse(src[src.index("def "):])
    fdef = tree.body[0]
    F = z3.Float64()
    rm = z3.RNE()
    FMAX = z3.fpFP(z3.BitVecVal(0, 1), z3.BitVecVal(2046, 11), z3.BitVecVal((1 << 52) - 1, 52))
    FMIN = z3.fpNeg(FMAX)
    env = {a.arg: z3.FP(a.arg, F) for a in fdef.args.args}
    params = dict(env)

    def ev(n):
        if isinstance(n, ast.Name):
            return env[n.id]
        if isinstance(n, ast.Constant):
            if n.value is None:
                return None
            return z3.FPVal(float(n.value), F)
        if isinstance(n, ast.BinOp):
            a, b = ev(n.left), ev(n.right)
            if isinstance(n.op, ast.Mult):
                return z3.fpMul(rm, a, b)
            if isinstance(n.op, ast.Add):
                return z3.fpAdd(rm, a, b)
            if isinstance(n.op, ast.Sub):
                return z3.fpSub(rm, a, b)
            if isinstance(n.op, ast.Div):
                return z3.fpDiv(rm, a, b)
        if isinstance(n, ast.UnaryOp) and isinstance(n.op, ast.USub):
            return z3.fpNeg(ev(n.operand))
        if isinstance(n, ast.Attribute):
            # finfo.max / finfo.min / np.finfo(x.dtype).max
            if n.attr == "max":
                return FMAX
            if n.attr == "min":
                return FMIN
            if n.attr in ("tiny", "smallest_normal"):
                return z3.FPVal(2.0 ** -1022, F)
            if n.attr == "eps":
                return z3.FPVal(2.0 ** -52, F)
            if n.attr == "smallest_subnormal":
                return z3.FPVal(5e-324, F)
        if isinstance(n, ast.Call):
            f = n.func
            name = f.attr if isinstance(f, ast.Attribute) else f.id
            if name == "clip":
                x = ev(n.args[0])
                lo = ev(n.args[1]) if len(n.args) > 1 else None
                hi = ev(n.args[2]) if len(n.args) > 2 else None
                # numpy clip = minimum(maximum(x, lo), hi); NaN propagates
                if lo is not None:
                    x = z3.If(z3.fpIsNaN(x), x, z3.If(z3.fpLT(x, lo), lo, x))
                if hi is not None:
                    x = z3.If(z3.fpIsNaN(x), x, z3.If(z3.fpGT(x, hi), hi, x))
                return x
            if name == "reciprocal":
                return z3.fpDiv(rm, z3.FPVal(1.0, F), ev(n.args[0]))
            if name == "detach" and len(n.args) == 1:
                return ev(n.args[0])
            if name in ("max", "maximum") and len(n.args) == 2 and not n.keywords:
                a, b = ev(n.args[0]), ev(n.args[1])
                return z3.If(z3.fpIsNaN(a), a, z3.If(z3.fpIsNaN(b), b, z3.If(z3.fpGT(b, a), b, a)))
            if name in ("min", "minimum") and len(n.args) == 2 and not n.keywords:
                a, b = ev(n.args[0]), ev(n.args[1])
                return z3.If(z3.fpIsNaN(a), a, z3.If(z3.fpIsNaN(b), b, z3.If(z3.fpLT(b, a), b, a)))
        raise NotImplementedError(ast.dump(n))

    result = None
    for st in fdef.body:
        if isinstance(st, ast.Try):
            continue  # finfo / iinfo selection: float64 -> np.finfo
        if isinstance(st, ast.Assign) and isinstance(st.targets[0], ast.Name):
            if st.targets[0].id == "finfo":
                continue
            env[st.targets[0].id] = ev(st.value)
            if local is not None and st.targets[0].id == local:
                # the same prefix of the REAL source, compiled in the module's own namespace, for validation / replay
                mod = ast.Module(body=[ast.FunctionDef(name="_prefix", args=fdef.args, decorator_list=[], type_params=[],
                                 body=fdef.body[:fdef.body.index(st) + 1] + [ast.Return(value=ast.Name(id=local, ctx=ast.Load()))])], type_ignores=[])
                ast.fix_missing_locations(mod)
                ns = {}
                exec(compile(mod, "<prefix of %s>" % fn_name, "exec"), fn.__globals__, ns)
                return params, env[local], src, ns["_prefix"], fdef.body[fdef.body.index(st) + 1:]
        elif isinstance(st, ast.Return):
            result = ev(st.value)
    if local is not None:
        raise NotImplementedError("no local %r" % local)
    if result is None:
        raise NotImplementedError("no return")
    return params, result, src


def fp_kernel(inst):
    import time
    import numpy as np
    import z3
    import funsor.ops.array as A
    _, fn_name, carrier = inst
    t0 = time.time()
    out = dict(status="ok", label=str(inst), detail="", obligations=1, discharged=0, nontrivial=True, paths=1, cells=1)
    try:
        params, result, src = _fp_translate(fn_name)
    except Exception as e:  # noqa
        out.update(status="inconclusive", detail="FP translator cannot encode current source of %s: %s" % (fn_name, e))
        return out
    # validate the translation on a grid of edge floats against the REAL function
    fn = getattr(A, fn_name)
    grid = [0.0, -0.0, 1.0, -1.0, 0.5, 3.0, 1e-310, -1e-310, 5e-324, 1e308, -1e308, 1.7976931348623157e308, math.inf, -math.inf, 2.0 ** -1022]
    names = list(params)
    checked = 0
    for vals in itertools.product(grid, repeat=len(names)):
        with np.errstate(all="ignore"):
            real = fn(*[np.array(v) for v in vals])
        sub = [(params[n], z3.FPVal(v, z3.Float64())) for n, v in zip(names, vals)]
        sym = z3.simplify(z3.substitute(result, *sub))
        realv = float(real)
        if z3.is_fprm(sym) or not z3.is_fp_value(sym):
            continue
        symv = _fpval(sym)
        checked += 1
        if not ((math.isnan(symv) and math.isnan(realv)) or symv == realv):
            out.update(status="gap", detail="FP translation of %s disagrees with the real function at %s: %r vs %r" % (fn_name, vals, symv, realv))
            return out
    out["translation_validated_points"] = checked
    F = z3.Float64()
    s = z3.Solver()
    s.set("timeout", 300000)
    x = params.get("x")
    y = params.get("y")
    cons = []
    if carrier == "safediv":      # x finite, y >= +0 (not NaN)
        cons += [z3.Not(z3.fpIsNaN(x)), z3.Not(z3.fpIsInf(x)), z3.Not(z3.fpIsNaN(y)), z3.fpGEQ(y, z3.FPVal(0.0, F)), z3.Not(z3.fpIsNegative(y))]
    elif carrier == "safesub":    # x, y in [-inf, +inf)
        for v in (x, y):
            cons += [z3.Not(z3.fpIsNaN(v)), z3.Not(z3.And(z3.fpIsInf(v), z3.fpIsPositive(v)))]
    elif carrier == "reciprocal":  # x >= +0
        cons += [z3.Not(z3.fpIsNaN(x)), z3.fpGEQ(x, z3.FPVal(0.0, F)), z3.Not(z3.fpIsNegative(x))]
    s.add(*cons)
    s.add(z3.fpIsNaN(result))
    from symx import engine
    t1 = time.time()
    r = s.check()
    engine.STATS.queries += 1
    engine.STATS.solver_s += time.time() - t1
    out["solver_s"] = round(time.time() - t1, 2)
    if r == z3.unsat:
        engine.STATS.unsat += 1
        out["discharged"] = 1
        # reachability twin: outside the carrier NaN must be reachable (the encoding can express NaN)
        s2 = z3.Solver()
        s2.set("timeout", 60000)
        s2.add(z3.fpIsNaN(result))
        out["twin"] = str(s2.check())
        return out
    if r == z3.sat:
        m = s.model()
        vals = []
        for n in names:
            v = m.eval(params[n], model_completion=True)
            vals.append(_fpval(v))
        with np.errstate(all="ignore"):
            real = fn(*[np.array(v) for v in vals])
        if np.isnan(real):
            out.update(status="violation", kind="value", detail="%s%r = NaN inside the carrier" % (fn_name, tuple(vals)),
                       replay=dict(fn=fn_name, args=[repr(v) for v in vals]))
        else:
            out.update(status="inconclusive", detail="FP model %r does not reproduce NaN on the real function" % (vals,))
        return out
    out.update(status="inconclusive", detail="FP query unknown/timeout")
    return out


def fp_shift(inst):
    """stability contract of the logaddexp kernels over ALL of float64 (x, y in [-inf, +inf)):  the kernel has the
    shape  log(exp(x - shift) + exp(y - shift)) + shift  (checked on the AST), shift is finite, no exp argument
    overflows, and the larger exp argument stays within W of 0 unless both operands are -inf - which is what makes
    the float result the exact limit at -inf and near the float range boundary (the exact-arithmetic agreement with
    the specification is decided separately on the SV algebra)."""
    import ast
    import time
    import numpy as np
    import z3
    import funsor.ops.array as A
    _, fn_name, scalar_first = inst
    W = 100.0
    out = dict(status="ok", label=str(inst), detail="", obligations=1, discharged=0, nontrivial=True, paths=1, cells=1)
    try:
        params, shift, src, prefix, rest = _fp_translate(fn_name, local="shift")
        # the remaining statement must be exactly the stabilised form
        ok_shape = len(rest) == 1 and isinstance(rest[0], ast.Return) and \
            ast.unparse(rest[0].value).replace(" ", "") == "np.log(np.exp(x-shift)+np.exp(y-shift))+shift"
        if not ok_shape:
            raise NotImplementedError("kernel is not log(exp(x - shift) + exp(y - shift)) + shift: %s" % ast.unparse(rest[0] if rest else ast.Pass()))
    except Exception as e:  # noqa
        out.update(status="inconclusive", detail="FP translator cannot encode current source of %s: %s" % (fn_name, e))
        return out
    fn = getattr(A, fn_name)
    F = z3.Float64()
    rm = z3.RNE()
    x, y = params["x"], params["y"]

    def call(f, a, b):
        with np.errstate(all="ignore"):
            return f(float(a) if scalar_first else np.array(a), np.array(b))
    grid = [0.0, -0.0, 1.0, -1.0, 0.25, -745.5, -800.0, 709.0, 1e-310, 5e-324, 1e308, -1e308, -1.7976931348623157e308, -math.inf, 2.0 ** -1022]
    checked = 0
    for a, b in itertools.product(grid, repeat=2):
        real = float(call(prefix, a, b))
        sym = z3.simplify(z3.substitute(shift, (x, z3.FPVal(a, F)), (y, z3.FPVal(b, F))))
        if not z3.is_fp_value(sym):
            continue
        checked += 1
        symv = _fpval(sym)
        if not ((math.isnan(symv) and math.isnan(real)) or symv == real):
            out.update(status="gap", detail="FP translation of shift in %s disagrees with the real prefix at %s: %r vs %r" % (fn_name, (a, b), symv, real))
            return out
    out["translation_validated_points"] = checked
    cons = []
    for v in (x, y):
        cons += [z3.Not(z3.fpIsNaN(v)), z3.Not(z3.And(z3.fpIsInf(v), z3.fpIsPositive(v)))]
    ax, ay = z3.fpSub(rm, x, shift), z3.fpSub(rm, y, shift)
    both_ninf = z3.And(z3.fpIsInf(x), z3.fpIsInf(y))
    big = z3.If(z3.fpGT(ay, ax), ay, ax)

    def contract(hi, lo):
        return z3.And(z3.Not(z3.fpIsNaN(shift)), z3.Not(z3.fpIsInf(shift)), z3.Not(z3.fpIsNaN(ax)), z3.Not(z3.fpIsNaN(ay)),
                      z3.fpLEQ(ax, z3.FPVal(hi, F)), z3.fpLEQ(ay, z3.FPVal(hi, F)), z3.Or(both_ninf, z3.fpGEQ(big, z3.FPVal(-lo, F))))
    good = contract(W, W)
    from symx import engine
    # stage 1: a CATASTROPHIC breach (an exp argument overflows, or the largest one underflows to 0) - such a model is
    # numerically wrong on the real kernel, so the verdict does not depend on which model of the W-contract z3 returns
    sol = z3.Solver()
    sol.set("timeout", 300000)
    sol.add(*cons)
    sol.add(z3.Not(contract(709.0, 746.0)))
    t1 = time.time()
    r = sol.check()
    engine.STATS.queries += 1
    if r != z3.sat:
        sol = z3.Solver()
        sol.set("timeout", 300000)
        sol.add(*cons)
        sol.add(z3.Not(good))
        r = sol.check()
        engine.STATS.queries += 1
    engine.STATS.solver_s += time.time() - t1
    out["solver_s"] = round(time.time() - t1, 2)
    if r == z3.unsat:
        engine.STATS.unsat += 1
        out["discharged"] = 1
        s2 = z3.Solver()      # reachability twin: with +inf allowed the contract must be violable
        s2.set("timeout", 60000)
        s2.add(z3.Not(z3.fpIsNaN(x)), z3.Not(z3.fpIsNaN(y)), z3.Not(good))
        out["twin"] = str(s2.check())
        return out
    if r == z3.sat:
        m = sol.model()
        a, b = _fpval(m.eval(x, model_completion=True)), _fpval(m.eval(y, model_completion=True))
        real = float(call(fn, a, b))
        hi, lo = max(a, b), min(a, b)
        want = hi if lo == -math.inf else hi + math.log1p(math.exp(lo - hi))
        bad = math.isnan(real) or (real != want and not (abs(real - want) <= 1e-9 * max(1.0, abs(want))))
        if bad:
            out.update(status="violation", kind="value", detail="%s(%r, %r) = %r, exact limit %r (shift %r breaks the stability contract)" % (
                fn_name, a, b, real, want, float(call(prefix, a, b))), replay=dict(fn=fn_name, args=[repr(a), repr(b)]))
        else:
            out.update(status="inconclusive", detail="stability contract fails at %r but the real kernel is still accurate there" % ((a, b),))
        return out
    out.update(status="inconclusive", detail="FP query unknown/timeout")
    return out


def fp_stability(inst):
    """Engine F: the real logsumexp / log-space einsum kernels on IEEE-754 symbolic cells.  Decided over ALL float64
    operands in {-inf} u [-1e300, 1e300]: no argument of exp is NaN or above W, and in every reduction group the
    largest exp argument is at least -W unless the whole group is -inf (so the group's sum of exponentials neither
    overflows nor vanishes, which is what makes the float result the exact limit).  A model is replayed on the
    real kernel against a brute-force reference; only a numerically wrong result is reported."""
    import time
    import numpy as np
    import z3
    import funsor.ops as ops
    from symx import engine
    from symx import fparray as FA
    from symx.symarray import install
    install()
    W = 100.0
    kernel = inst[1]
    out = dict(status="ok", label=str(inst), detail="", obligations=1, discharged=0, nontrivial=True, paths=1, cells=0)
    if kernel == "logsumexp":
        _, _, shape, axis, keepdims = inst
        shapes, dims_in = [shape], ["abcd"[:len(shape)]]
        red = set(dims_in[0]) if axis is None else {dims_in[0][axis % len(shape)]}
        dims_out = "".join(d for d in dims_in[0] if d not in red)

        def run(arrs):
            return ops.logsumexp(arrs[0], axis, keepdims)
    else:
        _, _, eq, shapes = inst
        ins_, dims_out = eq.split("->")
        dims_in = ins_.split(",")

        def run(arrs):
            from funsor.einsum.numpy_log import einsum
            return einsum(eq, *arrs)
    def setup(c):
        pass

    def body():
        FA.EXP_LOG.clear()
        arrs = []
        for k, sh in enumerate(shapes):
            a, _v = FA.fp_array("x%d" % k, tuple(sh))
            arrs.append(a)
        run(arrs)
        return list(FA.EXP_LOG)
    vars_ = [FA.fp_array("x%d" % k, tuple(sh))[1] for k, sh in enumerate(shapes)]       # same names -> same z3 constants
    try:
        paths = engine.explore(body, max_paths=16, setup=setup)
    except engine.PathCapExceeded:
        out.update(status="inconclusive", detail="Engine F: path cap")
        return out
    bad_exc = [p_.exc for p_ in paths if p_.exc is not None]
    if bad_exc:
        e = bad_exc[0]
        out.update(status="inconclusive", detail="Engine F cannot run the current kernel source: %s: %s" % (type(e).__name__, str(e)[:100]))
        return out
    out["paths"] = len(paths)
    all_unsat = True
    for pr in paths:
        r_ = _fp_stab_path(inst, out, kernel, shapes, dims_in, dims_out, vars_, pr.value, list(pr.ctx.pc), run, W)
        if r_ is not None:
            return r_
    out["discharged"] = 1
    return out


def _fp_stab_path(inst, out, kernel, shapes, dims_in, dims_out, vars_, logs, pc, run, W):
    """the stability contract on one control-flow path of the kernel (path condition pc); returns an outcome to stop
    with, or None when the contract holds on this path"""
    import time
    import numpy as np
    import z3
    from symx import engine
    from symx import fparray as FA
    if len(logs) != len(shapes) or any(l.shape != tuple(sh) for l, sh in zip(logs, shapes)):
        out.update(status="inconclusive", detail="kernel does not exponentiate each operand exactly once (exp calls: %s)" % [l.shape for l in logs])
        return out
    F = FA.F64
    w, hi_c, lo_c = z3.FPVal(W, F), z3.FPVal(709.0, F), z3.FPVal(-746.0, F)
    cons, good, good_cat = [], [], []       # good_cat: the weaker contract whose breach is catastrophic (overflow / total underflow)
    for k, (dims, v, lg) in enumerate(zip(dims_in, vars_, logs)):
        groups = {}
        for i in np.ndindex(*v.shape):
            x = v[i]
            cons.append(z3.And(z3.Not(z3.fpIsNaN(x)), z3.Or(z3.And(z3.fpIsInf(x), z3.fpIsNegative(x)),
                                                             z3.And(z3.fpLEQ(x, z3.FPVal(1e300, F)), z3.fpGEQ(x, z3.FPVal(-1e300, F))))))
            a = lg[i].t
            if a is None:
                out.update(status="inconclusive", detail="opaque exp argument")
                return out
            good.append(z3.And(z3.Not(z3.fpIsNaN(a)), z3.fpLEQ(a, w)))
            good_cat.append(z3.And(z3.Not(z3.fpIsNaN(a)), z3.fpLEQ(a, hi_c)))
            groups.setdefault(tuple(ix for d, ix in zip(dims, i) if d in dims_out), []).append((x, a))
        for g in groups.values():
            good.append(z3.Or(z3.And(*[z3.fpIsInf(x) for x, _ in g]), z3.Or(*[z3.fpGEQ(a, z3.fpNeg(w)) for _, a in g])))
            good_cat.append(z3.Or(z3.And(*[z3.fpIsInf(x) for x, _ in g]), z3.Or(*[z3.fpGEQ(a, lo_c) for _, a in g])))
            out["cells"] += len(g)
    tmo = 120000 if os.environ.get("VERIF_TIER", "quick") == "quick" else 900000
    t1 = time.time()
    # stage 1: a catastrophic breach is numerically wrong on the real kernel whatever model z3 picks; stage 2: the W-contract
    sol = z3.Solver()
    sol.set("timeout", tmo)
    sol.add(*cons)
    sol.add(*pc)
    sol.add(z3.Not(z3.And(*good_cat)))
    r = sol.check()
    engine.STATS.queries += 1
    if r != z3.sat:
        sol = z3.Solver()
        sol.set("timeout", tmo)
        sol.add(*cons)
        sol.add(*pc)
        sol.add(z3.Not(z3.And(*good)))
        r = sol.check()
        engine.STATS.queries += 1
    engine.STATS.solver_s += time.time() - t1
    out["solver_s"] = round(out.get("solver_s", 0) + time.time() - t1, 2)
    if r == z3.unsat:
        engine.STATS.unsat += 1
        if out.get("twin") is None:
            s2 = z3.Solver()      # reachability twin: with +inf / NaN operands the contract must be violable
            s2.set("timeout", 60000)
            s2.add(z3.Not(z3.And(*good)))
            out["twin"] = str(s2.check())
        return None
    if r != z3.sat:
        out.update(status="inconclusive", detail="FP query unknown/timeout")
        return out
    m = sol.model()
    conc = []
    for v in vars_:
        c = np.empty(v.shape, dtype=np.float64)
        for i in np.ndindex(*v.shape):
            c[i] = FA.fpval(m.eval(v[i], model_completion=True))
        conc.append(c)
    with np.errstate(all="ignore"):
        real = np.asarray(run([c.copy() for c in conc]), dtype=np.float64)
    # brute-force reference
    sizes = {}
    for dims, c in zip(dims_in, conc):
        for d, n in zip(dims, c.shape):
            sizes[d] = n
    alld = sorted(sizes)
    redd = [d for d in alld if d not in dims_out]
    ref = np.empty(tuple(sizes[d] for d in dims_out), dtype=np.float64)
    for oi in np.ndindex(*ref.shape):
        env = dict(zip(dims_out, oi))
        ts = []
        for ri in itertools.product(*(range(sizes[d]) for d in redd)):
            env.update(zip(redd, ri))
            ts.append(math.fsum(float(c[tuple(env[d] for d in dims)]) for dims, c in zip(dims_in, conc)))
        mx = max(ts)
        ref[oi] = mx if mx == -math.inf else mx + math.log(math.fsum(math.exp(t - mx) for t in ts))
    realc = real.reshape(ref.shape) if real.size == ref.size else real
    bad = realc.shape != ref.shape or any(
        not ((realc[i] == ref[i]) or abs(realc[i] - ref[i]) <= 1e-9 * max(1.0, abs(ref[i]))) for i in np.ndindex(*ref.shape))
    if bad:
        out.update(status="violation", kind="value", detail="%s on %s returns %s, exact limit %s (an exp argument leaves [-%g, %g])" % (
            kernel if kernel == "logsumexp" else "numpy_log.einsum(%r)" % inst[2], [c.tolist() for c in conc], realc.tolist(), ref.tolist(), W, W),
            replay=dict(kernel=kernel, inst=repr(inst), operands=[c.tolist() for c in conc]))
    else:
        out.update(status="inconclusive", detail="stability contract fails at %s but the real kernel is still accurate there" % [c.tolist() for c in conc])
    return out


def _fpval(v):
    import struct
    import z3
    if v.isNaN():
        return math.nan
    if v.isInf():
        return -math.inf if v.isNegative() else math.inf
    bv = z3.simplify(z3.fpToIEEEBV(v)).as_long()
    return struct.unpack("<d", struct.pack("<Q", bv))[0]


def np_arr(v):
    import numpy as np
    return np.array(v)


def instances(tier):
    import funsor.ops as ops
    shapes = SHAPES_Q if tier == "quick" else SHAPES_T
    out = []
    names = {v: k for k, v in vars(ops).items() if isinstance(v, ops.Op)}
    skipped = []
    for op, unit in ops.UNITS.items():
        n = op.__name__
        if n not in OP_CARRIER:
            skipped.append("UNITS[%s]" % n)
            continue
        for sh in shapes:
            for side in "lr":
                out.append(("unit", n, sh, side))
    combos = [(None, None, None), ((), (), ()), ((3,), (3,), (3,)), ((3, 2), (2,), (3, 2))]
    for add_op, mul_op in sorted(ops.DISTRIBUTIVE_OPS, key=lambda p: (p[0].__name__, p[1].__name__)):
        key = (add_op.__name__, mul_op.__name__)
        if key not in PAIR_CARRIER:
            skipped.append("DISTRIBUTIVE_OPS%s" % (key,))
            continue
        cs = CONSTS[PAIR_CARRIER[key]]
        mixed = [(("c", c), (3,), (3,)) for c in cs] + [((3,), ("c", c), (3,)) for c in cs[:2]] + [((3,), (3, 1)[:1], ("c", cs[0]))]
        for sh in (combos + mixed) if tier == "quick" else combos + mixed + [((2, 2, 2), (2,), (2, 2))]:
            out.append(("distrib", key[0], key[1], sh))
    for table in ("BINARY_INVERSES", "SAFE_BINARY_INVERSES"):
        for op in getattr(ops, table):
            if op.__name__ not in OP_CARRIER:
                skipped.append("%s[%s]" % (table, op.__name__))
                continue
            for sh in [(None, None), ((), ()), ((3,), (3,)), (("c", 2.0 if OP_CARRIER[op.__name__] != "bool" else True), (3,)), ((3, 2), (2,)),
                       ((3,), ("c", 0.5 if OP_CARRIER[op.__name__] != "bool" else True))]:
                out.append(("binv", table, op.__name__, sh))
    for op in ops.UNARY_INVERSES:
        for sh in shapes:
            out.append(("uinv", op.__name__, sh))
    for op in ops.PRODUCT_TO_POWER:
        for n in range(1, 7 if tier == "quick" else 11):
            for sh in shapes:
                out.append(("power", op.__name__, n, sh))
    for opn, car in [("neg", "real"), ("abs", "real"), ("exp", "real"), ("log", "pos"), ("log", "nonneg"), ("sqrt", "nonneg"), ("log1p", "nonneg"),
                     ("tanh", "real"), ("sigmoid", "real"), ("reciprocal", "pos"), ("invert", "bool"), ("exp", "log")]:
        out.append(("agree1", opn, car))
    for opn, car, cary in [("add", "real", "real"), ("sub", "real", "real"), ("mul", "real", "real"), ("truediv", "real", "pos"),
                           ("max", "real", "real"), ("min", "real", "real"), ("eq", "real", "real"), ("lt", "real", "real"),
                           ("le", "real", "real"), ("ge", "real", "real"), ("gt", "real", "real"), ("ne", "real", "real"),
                           ("and_", "bool", "bool"), ("or_", "bool", "bool"), ("xor", "bool", "bool"),
                           ("logaddexp", "logfinite", "logfinite"), ("add", "log", "log"), ("max", "log", "log"), ("min", "log", "log"),
                           ("safesub", "real", "real"), ("safediv", "real", "pos"),
                           ("floordiv", ("int", 5), ("int", 4)), ("mod", ("int", 5), ("int", 4)), ("add", ("int", 5), ("int", 4)), ("mul", ("int", 5), ("int", 4))]:
        out.append(("agree2", opn, car, cary))
    for sh in [(3,), (3, 2)] + ([(2, 2, 2)] if tier != "quick" else []):
        for ax in [None] + list(range(len(sh))):
            for kd in (False, True):
                out.append(("logsumexp", sh, ax, kd))
    eqs = [("ab,bc->ac", [(2, 3), (3, 2)]), ("ab,b->a", [(2, 3), (3,)]), ("a,a->", [(3,), (3,)]), ("ab->b", [(2, 3)]), ("ab,a->ab", [(2, 3), (2,)]),
           ("a,b->ab", [(2,), (3,)]), ("ab,bc,c->a", [(2, 2), (2, 3), (3,)]), ("ab->ba", [(2, 3)]), ("ab,ab->", [(2, 2), (2, 2)])]
    for be in ("funsor.einsum.numpy_log", "funsor.einsum.numpy_map"):
        for eq, shs in eqs:
            out.append(("einsum", be, eq, shs))
    inf = math.inf
    for a, b, want in [(-inf, -inf, -inf), (-inf, 0.0, 0.0), (0.0, -inf, 0.0), (-inf, 1.5, 1.5), (-745.0, -inf, -745.0)]:
        out.append(("edge", "logaddexp", a, b, want))
        out.append(("edge", "logaddexp", np_arr(a), np_arr(b), want))
    # the safe subtraction at the log-space corners: never NaN, scalar == 0-d array (FX-safesub-scalar-neginf)
    import sys as _sys
    for a, b, want in [(-inf, -inf, -inf), (-inf, 1.5, -inf), (-inf, 0.0, -inf), (1.0, -inf, _sys.float_info.max), (0.0, -inf, _sys.float_info.max)]:
        out.append(("edge", "safesub", a, b, want))
        out.append(("edge", "safesub", np_arr(a), np_arr(b), want))
    import numpy as _np
    for a, want in ((True, False), (False, True)):
        out.append(("edge1", "invert", a, want))
        out.append(("edge1", "invert", _np.array(a), want))
    out += [("fp", "_safesub", "safesub"), ("fp", "_reciprocal", "reciprocal"), ("fp", "_safediv", "safediv")]
    out += [("fpshift", "_safe_logaddexp_tensor_tensor", False), ("fpshift", "_safe_logaddexp_number_tensor", True)]
    for sh in [(3,), (2, 2)] + ([(2, 3), (2, 2, 2)] if tier != "quick" else []):
        for ax in [None] + list(range(len(sh))):
            if sh == (2, 2, 2) and ax is None:
                continue        # one reduction group of 8 float64 cells: z3's FP theory does not decide it within 2 x 900 s (measured)
            out.append(("fpstab", "logsumexp", sh, ax, False))
    out.append(("fpstab", "logsumexp", (2, 2), 1, True))
    for eq, shs in [("ab,bc->ac", [(2, 2), (2, 2)]), ("ab,b->a", [(2, 2), (2,)]), ("a,a->", [(3,), (3,)]), ("ab->b", [(2, 2)]), ("a,b->ab", [(2,), (2,)]), ("ab,a->ab", [(2, 2), (2,)])] + (
            [("ab,bc,c->a", [(2, 2), (2, 2), (2,)]), ("ab,bc->ac", [(2, 3), (3, 2)]), ("ab,ab->", [(2, 2), (2, 2)])] if tier != "quick" else []):
        out.append(("fpstab", "einsum", eq, shs))
    return out, skipped


def main():
    chk = Check("C15", "proof")
    insts, skipped = instances(chk.tier)
    chk.notes += ["table entry without a declared carrier, not decided: %s" % s for s in skipped]
    chk.max_unsupported = 0     # every kernel of this check is executable by the numpy models on the unchanged tree
    chk.map("checks.c15", "worker", insts, chunksize=2)
    chk.bounds = dict(operands="unconstrained symbolic scalars of each op's carrier (no value enumeration)",
                      shapes=[str(s) for s in (SHAPES_Q if chk.tier == "quick" else SHAPES_T)], power_n="1..6" if chk.tier == "quick" else "1..10",
                      fp="safediv/safesub/reciprocal over all of float64 inside the stated carriers",
                      fp_stability="logaddexp kernels (AST->FP), ops.logsumexp on shapes up to (2,2)|(2,2,2) (reduction groups of at most 4|6 cells) and numpy_log.einsum on 6|9 equations with 2x2 operands (Engine F: real kernel on IEEE cells), operands in {-inf} u [-1e300, 1e300]")
    chk.assumptions = ["reals for floats except the three FloatingPoint kernels", "libm functions (math.exp etc.) are modelled by the SV algebra (uninterpreted where not polynomial)",
                       "behaviour near the float range boundary is claimed through the stability contract of the stabilising shift (no exp argument above 100, largest one per reduction group at least -100 unless the group is all -inf); accuracy of libm exp/log on [-100, 100] and of float addition of the exponentials is trusted", "NaN inputs outside the claim"]
    chk.floor = 100
    chk.max_inconclusive_share = 0.1
    chk.finish(rule="one obligation per (table entry | op) x operand-shape combination read from the live tables; distinct = distinct descriptor; non-trivial = goal not syntactically true",
               trusted_base=["z3 5.1 (NRA/LIA, FloatingPoint)", "symx.sv algebra", "symx.symarray numpy model", "lang.cellops textbook ops", "AST->FP translator (validated on an edge-value grid each run)", "symx.fparray (Engine F numpy model: maximum / clip / where / subtract exact in QF_FP, exp / log / sums opaque)"],
               checker_cmd="./bin/vcheck C15 --tier " + chk.tier)


if __name__ == "__main__":
    main()
