"""C20 — the same mutation monitor around funsor's algorithm entry points (sampling, index substitution into Slice,
sum-product, Markov sum-product, adjoint, data conversion).  Every array handed to funsor is snapshotted; concrete
float64/int64 arrays are compared bit for bit, symbolic cells by identity with the solver deciding changed terms."""
import itertools
import os
import random
from collections import OrderedDict


def _arrays(kind, params, symbolic, rng):
    """name -> array (concrete numpy or SymArray) for one instance"""
    import numpy as np
    from symx.symarray import sym_array
    out = OrderedDict()

    def real(name, shape, carrier="real", with_ninf=False):
        if symbolic:
            out[name] = sym_array(name, shape, carrier)
        else:
            a = np.array([rng.uniform(-2, 2) for _ in range(int(np.prod(shape, dtype=int)))], dtype=np.float64).reshape(shape)
            if with_ninf and a.size > 1:
                flat = a.reshape(-1)
                flat[1::2] = -np.inf          # every row keeps a finite cell at an even flat position
            out[name] = a
        return out[name]

    def ints(name, shape, n):
        if symbolic:
            out[name] = sym_array(name, shape, ("int", n))
        else:
            out[name] = np.array([rng.randrange(n) for _ in range(int(np.prod(shape, dtype=int)))], dtype=np.int64).reshape(shape)
        return out[name]
    if kind == "sample":
        sizes, sampled, sample_inputs = params
        real("logits", tuple(sizes.values()), "log", with_ninf=True)
    elif kind == "slice_index":
        (start, stop, step, n), m, mode = params
        size = len(range(start, stop, step))
        ints("idx", (m,), size)
        if mode != "direct":
            real("x", (n, 2))
    elif kind == "approximate":
        real("model", (3,))
        real("guide", (3, 2))
    elif kind == "cat_index":
        sizes, how = params
        a = ints("idx", () if how == "scalar" else (2,), sum(sizes))
        if not symbolic:        # an index beyond the first part
            a[...] = sum(sizes) - 1
        for i, n in enumerate(sizes):
            real("p%d" % i, (n,))
    elif kind == "sum_product":
        for name, vs in params["factors"]:
            real(name, tuple(params["sizes"][v] for v in vs), params["carrier"])
    elif kind == "markov":
        real("trans", (params["T"], params["S"], params["S"]), params["carrier"])
    elif kind == "adjoint":
        for name, vs in params["factors"]:
            real(name, tuple(params["sizes"][v] for v in vs), params["carrier"])
    elif kind == "plate_adjoint":
        real("f", (3, params), "log", with_ninf=True)
        real("g", (3,), "log")
    elif kind == "convert":
        real("x", params["shape"])
    else:
        raise ValueError(kind)
    return out


def _run(kind, params, arrays, rand=None):
    """call the entry point; returns the funsors to hold (results and operands)"""
    import numpy as np
    import funsor
    import funsor.ops as ops
    from funsor import Bint, Tensor, Variable
    from funsor.interpretations import lazy
    from monitor import mutation as M

    class _Held(list):
        """funsors the caller keeps: each is snapshotted the moment it is put here, so that later steps of the same
        scenario (and not only code after the scenario) are checked against it"""

        def append(self, f):
            list.append(self, M.snap_funsor(f))

        def __iadd__(self, fs):
            for f in fs:
                self.append(f)
            return self
    held = _Held()
    if kind == "sample":
        import funsor.tensor as FT
        sizes, sampled, sample_inputs = params
        x = Tensor(arrays["logits"], OrderedDict((k, Bint[n]) for k, n in sizes.items()))
        held.append(x)
        saved = FT.np
        if rand is not None:
            FT.np = rand
        try:
            s = x.sample(frozenset(sampled), OrderedDict((k, Bint[n]) for k, n in sample_inputs.items()))
        finally:
            FT.np = saved
        held.append(s)
        held.append(x.reduce(ops.logaddexp, frozenset(sampled)))
    elif kind == "slice_index":
        from funsor.terms import Slice
        (start, stop, step, n), m, mode = params
        size = len(range(start, stop, step))
        idx = Tensor(arrays["idx"], OrderedDict(k=Bint[m]), size)
        held.append(idx)
        if mode == "direct":
            s = Slice("t", start, stop, step, n)
            held.append(s(t=idx))
            held.append(s(t=idx))            # a second use must see the same indices
        else:
            x = Tensor(arrays["x"], OrderedDict(i=Bint[n]))
            held.append(x)
            with lazy:
                e = x(i=Slice("t", start, stop, step, n))
            held.append(e(t=idx))
            held.append(x(i=Slice("t", start, stop, step, n))(t=idx))
    elif kind == "approximate":
        # a lazily built Approximate whose guide has an input the model lacks; and the adjoint of a lazy reduction
        # (adjoint rules build Approximate terms around shared constants)
        from funsor.interpretations import reflect
        how = params
        model = Tensor(arrays["model"], OrderedDict(a=Bint[3]))
        guide = Tensor(arrays["guide"], OrderedDict(a=Bint[3], b=Bint[2]))
        zero = funsor.Number(0.0)
        held += [model, guide, zero]
        if how in ("lazy", "reflect"):
            from funsor import Real
            with (lazy if how == "lazy" else reflect):
                lazy_model = Variable("y", Real) + model          # a term that stays lazy and is held by the caller
            held.append(lazy_model)
            with (lazy if how == "lazy" else reflect):
                for mdl in (lazy_model, model):
                    try:
                        held.append(mdl.approximate(ops.logaddexp, guide, "a"))
                    except AssertionError:
                        pass
        else:
            from funsor.adjoint import adjoint
            with lazy:
                e1 = guide.reduce(ops.logaddexp, "b")
                e2 = (model + guide).reduce(ops.logaddexp, frozenset(["a", "b"]))
            for e in (e1, e2):
                try:
                    bw = adjoint(ops.logaddexp, ops.add, e)
                    held += [v for v in bw.values() if isinstance(v, funsor.terms.Funsor)]
                except Exception:
                    pass
    elif kind == "plate_adjoint":
        # adjoint of a plated log-space model z = logsumexp_a(g[a] + sum_i f[a, i]) with impossible (-inf) entries in f
        from funsor.adjoint import AdjointTape
        f = Tensor(arrays["f"], OrderedDict(a=Bint[3], i=Bint[params]))
        g = Tensor(arrays["g"], OrderedDict(a=Bint[3]))
        held += [f, g]
        with AdjointTape() as tape:
            z = (g + f.reduce(ops.add, "i")).reduce(ops.logaddexp, "a")
        held.append(z)
        try:
            adj = tape.adjoint(ops.logaddexp, ops.add, z, (f, g))
            held += [v for v in adj.values() if isinstance(v, funsor.terms.Funsor)]
        except (NotImplementedError, AssertionError):
            pass
        held.append(g + f.reduce(ops.add, "i"))
    elif kind == "cat_index":
        # a Cat that stays lazy (its parts mention a free real variable), indexed by an integer Tensor
        from funsor import Real
        from funsor.terms import Cat
        sizes, how = params
        z = Variable("z", Real)
        parts = tuple(Tensor(arrays["p%d" % i], OrderedDict(a=Bint[n])) + z for i, n in enumerate(sizes))
        c = Cat("a", parts)
        held.append(c)
        idx = Tensor(arrays["idx"], OrderedDict() if how == "scalar" else OrderedDict(k=Bint[2]), sum(sizes))
        held.append(idx)
        for _ in range(2):                    # the same call twice must see the same index
            try:
                held.append(c(a=idx))
            except NotImplementedError:
                pass
    elif kind == "sum_product":
        from funsor.sum_product import sum_product
        sizes = params["sizes"]
        fs = [Tensor(arrays[name], OrderedDict((v, Bint[sizes[v]]) for v in vs)) for name, vs in params["factors"]]
        held += fs
        so, po = getattr(ops, params["ops"][0]), getattr(ops, params["ops"][1])
        held.append(sum_product(so, po, fs, frozenset(params["eliminate"]), frozenset(params["plates"])))
    elif kind == "markov":
        from funsor.sum_product import naive_sequential_sum_product, sequential_sum_product
        T, S = params["T"], params["S"]
        trans = Tensor(arrays["trans"], OrderedDict(time=Bint[T], prev=Bint[S], curr=Bint[S]))
        held.append(trans)
        so, po = getattr(ops, params["ops"][0]), getattr(ops, params["ops"][1])
        held.append(sequential_sum_product(so, po, trans, Variable("time", Bint[T]), {"prev": "curr"}))
        held.append(naive_sequential_sum_product(so, po, trans, Variable("time", Bint[T]), {"prev": "curr"}))
    elif kind == "adjoint":
        from funsor.adjoint import forward_backward
        sizes = params["sizes"]
        fs = [Tensor(arrays[name], OrderedDict((v, Bint[sizes[v]]) for v in vs)) for name, vs in params["factors"]]
        held += fs
        so, po = getattr(ops, params["ops"][0]), getattr(ops, params["ops"][1])
        with lazy:
            e = fs[0]
            for f in fs[1:]:
                e = po(e, f)
            e = e.reduce(so, frozenset(params["eliminate"]))
        fwd, bwd = forward_backward(so, po, e)
        held.append(fwd)
        held += [v for v in bwd.values() if isinstance(v, funsor.terms.Funsor)]
    elif kind == "convert":
        from funsor.terms import Slice, to_data, to_funsor
        sh = params["shape"]
        names = params["names"]
        nb = len(names)
        dim_to_name = {i - nb: n for i, n in enumerate(names) if n}
        out = funsor.Reals[tuple(sh[nb:])]
        f = to_funsor(arrays["x"], out, dim_to_name)
        held.append(f)
        held.append(f.align(tuple(reversed(list(f.inputs)))))
        name_to_dim = {n: i - nb for i, n in enumerate(names) if n and n in f.inputs}
        to_data(f, name_to_dim)
        for k, d in f.inputs.items():
            if d.size >= 2:
                held.append(f(**{k: Slice("w", 0, d.size, 2, d.size)}))
                held.append(f.materialize(Slice(k, 0, d.size, 1, d.size)))
                break
    return held


def worker(inst):
    import numpy as np
    from monitor import mutation as M
    from symx import engine
    from symx.engine import Unsupported
    from symx.symarray import install, use_logsumexp_spec
    install()
    _, kind, params = inst
    label = "api:%s|%s" % (kind, params)
    out = dict(status="ok", prog=label, label=label, detail="", paths=0, obligations=0, discharged=0, nontrivial=True)
    rng = random.Random(hash(str(params)) & 0xFFFF)

    def monitored(arrays, symbolic, rand=None):
        snaps = [(n, M.snap_sym(a) if symbolic and a.dtype == object else M.snap_conc(a)) for n, a in arrays.items()]
        with np.errstate(all="ignore"):
            held = list(_run(kind, params, arrays, rand))
        problems, symdiffs = [], []
        for n, s in snaps:
            if "cells" in s:
                d = M.diff_sym(s)
                if d:
                    symdiffs.append(("array " + n, d))
            else:
                d = M.diff_conc(s)
                if d:
                    problems.append("array %s handed to funsor: %s" % (n, d))
        for h in held:
            d = M.diff_funsor(h)
            if d is None:
                continue
            if isinstance(d, tuple):
                symdiffs.append(("held %s" % h["cls"].__name__, d[1]))
            else:
                problems.append("held funsor %s: %s" % (h["cls"].__name__, d))
        return problems, symdiffs
    # ---- concrete complement -----------------------------------------------------------------------------
    engine.reset()
    try:
        np.random.seed(rng.randrange(1 << 30))
        ca = _arrays(kind, params, False, rng)
        problems, _ = monitored(ca, False)
    except Exception as e:  # noqa
        out.update(status="declined", detail="%s: %s" % (type(e).__name__, str(e)[:150]))
        return out
    out["obligations"] += 1
    if problems:
        out.update(status="violation", kind="mutation", detail=problems[0], replay=dict(kind=kind, params=repr(params), arrays={k: v.tolist() for k, v in ca.items()}))
        return out
    out["discharged"] += 1
    # ---- symbolic ------------------------------------------------------------------------------------------
    st = {}

    def setup(c):
        st["arrays"] = _arrays(kind, params, True, rng)

    def body():
        rand = None
        if kind == "sample":
            from checks.c14 import _NpWithRandom, _RandProxy

            class _Mk:
                symbolic = True

                def array(self, name, shape, carrier):
                    from symx.symarray import sym_array
                    return sym_array(name, shape, carrier)

                def assume(self, c):
                    engine.assume(c.l)
            rand = _NpWithRandom(np, _RandProxy(_Mk(), np))
        return monitored(st["arrays"], True, rand)
    try:
        paths = engine.explore(body, max_paths=24, setup=setup)
    except engine.PathCapExceeded:
        out["notes"] = "symbolic part: path cap"
        return out
    out["paths"] = len(paths)
    for pr in paths:
        engine.CUR = pr.ctx
        if pr.exc is not None:
            out["notes"] = "symbolic part: %s: %s" % (type(pr.exc).__name__, str(pr.exc)[:80])
            continue
        problems, symdiffs = pr.value
        out["obligations"] += 1
        if problems:
            out.update(status="violation", kind="mutation", detail=problems[0])
            return out
        ok = True
        for what, d in symdiffs:
            v, m = M.decide_sym_diffs(d, pr.ctx.hyps())
            if v == "sat":
                # a symbolic cell was overwritten with a different value: confirm on concrete arrays
                engine.reset()
                ca2 = _arrays(kind, params, False, random.Random(1))
                p2, _ = monitored(ca2, False)
                engine.CUR = pr.ctx
                if p2:
                    out.update(status="violation", kind="mutation", detail="%s: %s" % (what, p2[0]), replay=dict(kind=kind, params=repr(params)))
                    return out
                out.update(status="inconclusive", detail="symbolic cell of %s changed value but the float64 replay shows no mutation" % what)
                ok = False
            elif v == "unknown":
                ok = False
        if ok:
            out["discharged"] += 1
    return out


def instances(tier):
    out = []
    for sizes, sampled, si in [(OrderedDict(a=3), ("a",), OrderedDict()), (OrderedDict(a=2, b=3), ("b",), OrderedDict()), (OrderedDict(a=2, b=3), ("a",), OrderedDict(p=2)),
                               (OrderedDict(a=2, b=2, c=2), ("b", "c"), OrderedDict()), (OrderedDict(a=2, b=2, c=2), ("a", "c"), OrderedDict(p=2)),
                               (OrderedDict(a=2, b=3), ("a", "b"), OrderedDict())]:
        out.append(("api", "sample", (sizes, sampled, si)))
    for sl in [(1, 4, 1, 4), (0, 4, 1, 4), (0, 4, 2, 4), (1, 4, 2, 4), (2, 5, 1, 6), (1, 6, 3, 6)]:
        for mode in ("direct", "lazy"):
            out.append(("api", "slice_index", (sl, 3, mode)))
    for how in ("lazy", "reflect", "adjoint"):
        out.append(("api", "approximate", how))
    for n in (2, 3):
        out.append(("api", "plate_adjoint", n))
    for sizes in ((2, 3), (1, 2, 2)):
        for how in ("scalar", "vector"):
            out.append(("api", "cat_index", (sizes, how)))
    graphs = [dict(factors=[("f", ("a",)), ("g", ("a", "b"))], eliminate=["a", "b"], plates=[]),
              dict(factors=[("f", ("a",)), ("g", ("a", "i")), ("h", ("a", "b", "i"))], eliminate=["a", "b", "i"], plates=["i"]),
              dict(factors=[("f", ("a", "b")), ("g", ("b", "c")), ("h", ("c",))], eliminate=["b"], plates=[])]
    for g in graphs:
        for so, po, car in (("add", "mul", "real"), ("logaddexp", "add", "log"), ("max", "add", "real")):
            p = dict(g, sizes=dict(a=2, b=3, c=2, i=2), ops=(so, po), carrier=car)
            out.append(("api", "sum_product", p))
            if not g["plates"] and so != "max":
                out.append(("api", "adjoint", p))
    for T in (2, 3, 4):
        for so, po, car in (("add", "mul", "real"), ("logaddexp", "add", "log")):
            out.append(("api", "markov", dict(T=T, S=2, ops=(so, po), carrier=car)))
    for sh, names in [((2, 3), ("a", "b")), ((1, 3), ("a", "b")), ((2, 1, 3), ("a", None, "c")), ((3, 2), ("a",)), ((4,), ("a",))]:
        out.append(("api", "convert", dict(shape=sh, names=names)))
    return out


def add(chk):
    insts = instances(chk.tier)
    chk.map("checks.c20_extra", "worker", insts, chunksize=2, family="api")
    chk.notes.append("algorithm entry points under the monitor: %d instances (sampling, Slice index substitution, sum_product, sequential_sum_product, forward_backward, to_funsor/to_data/align/materialize)" % len(insts))
