"""C11 — adjoints are semiring derivatives of the forward value (Engine A).

Oracle: every leaf occurs once, so the expression is semiring-linear in it; the derivative of root[r] with respect to
leaf[x] is the expression evaluated with the leaf replaced by the one-hot array (x -> product unit, elsewhere -> sum
unit).  This is the textbook "sum over all variables the leaf does not mention of the product of all other factor
occurrences", and stays right under renamings / slices / Cat of the leaves."""
import itertools
import os
import random
import sys

sys.path.insert(0, os.path.dirname(os.path.dirname(os.path.abspath(__file__))))

from harness.runner import Check  # noqa: E402

SEMIRINGS = [("add", "mul", "real"), ("logaddexp", "add", "log")]
VARS = [("a", 2), ("b", 3), ("c", 2), ("d", 2)]


def gen_exprs(rng, n, sum_op, prod_op, carrier, max_leaves, wrappers):
    from lang.prog import binary, cat, leaf, num, reduce_, slice_, subs, var
    out = []
    for _ in range(n):
        k = rng.randint(1, max_leaves)
        ops_ = []
        used_wrap = False
        must_reduce = set()      # names introduced by a wrapper are always reduced (the derivative with respect to the
        #                          underlying leaf is then a plain function of the leaf's own inputs and the root's)
        for i in range(k):
            vs = [v for v in VARS if rng.random() < 0.55]
            rng.shuffle(vs)
            vs = vs[:3]
            lf = leaf("f%d" % i, tuple(vs), (), carrier)
            e = lf
            if wrappers and vs and rng.random() < 0.4:
                used_wrap = True
                j = rng.randrange(len(vs))
                kk, size = vs[j]
                u = "u%d" % i                                   # the wrapped input gets a name used nowhere else
                uvs = tuple((u, s_) if n_ == kk else (n_, s_) for n_, s_ in vs)
                lf = leaf("f%d" % i, uvs, (), carrier)
                w = rng.choice(["rename", "slice", "cat", "index"])
                if w == "rename":
                    e = subs(lf, ((u, var(kk, ("bint", size))),))
                    must_reduce.add(kk)
                elif w == "slice" and size >= 2:
                    e = subs(lf, ((u, slice_("s%d" % i, 1, size, 1, size)),))
                    must_reduce.add("s%d" % i)
                elif w == "cat":
                    osize = rng.choice([1, size + 1, size])       # parts of unequal sizes along the concatenated input
                    other = leaf("g%d" % i, tuple((n_, (osize if n_ == u else s_)) for n_, s_ in uvs), (), carrier)
                    e = cat("t%d" % i, (lf, other) if rng.random() < 0.5 else (other, lf), u)
                    if rng.random() < 0.7:      # a sibling factor over the concatenated input: the incoming adjoint depends on it
                        e = binary(prod_op, e, leaf("h%d" % i, (("t%d" % i, size + osize),), (), carrier))
                    must_reduce.add("t%d" % i)
                elif w == "index" and size == 2:
                    e = subs(lf, ((u, leaf("perm%d" % i, ((kk, 2),), (), ("int", 2))),))     # injective index substitution
                    must_reduce.add(kk)
                else:
                    e = subs(lf, ((u, var(kk, ("bint", size))),))
                    must_reduce.add(kk)
            ops_.append(e)
        e = ops_[0]
        for o in ops_[1:]:
            e = binary(prod_op, e, o)
        from lang.prog import type_of
        try:
            ins = [(kk, d[1]) for kk, d in type_of(e)[0].items() if d[0] == "bint"]
        except Exception:
            continue
        red = tuple(v for v in ins if rng.random() < 0.6 or v[0] in must_reduce)
        if red:
            e = reduce_(sum_op, e, red)
        out.append(e)
    return out


def build_obligation(inst):
    _, sr, prog, optimize = inst

    def ob(mk):
        import numpy as np
        import funsor
        import funsor.ops as ops
        from funsor.adjoint import forward_backward
        from funsor.interpretations import lazy, reflect
        from funsor.optimizer import apply_optimizer
        from funsor.tensor import Tensor
        from harness.core import leaf_shape, result_cells
        from harness.oblig import Decline
        from lang import cellops as C
        from lang.build import build
        from lang.denote import denote
        from lang.prog import leaves_of, type_of
        from symx.symarray import as_obj
        sum_op, prod_op = getattr(ops, sr[0]), getattr(ops, sr[1])
        lf = leaves_of(prog)
        leaves = {}
        for name, l in lf.items():
            car = l[4]
            if isinstance(car, tuple):       # index tensors: a concrete permutation (injective index substitution)
                leaves[name] = np.array([1, 0], dtype=np.int64)
            else:
                leaves[name] = mk.array(name, leaf_shape(l), car)
        try:
            with lazy:
                expr = build(prog, leaves)
                if optimize:
                    expr = apply_optimizer(expr)
            fwd, bwd = forward_backward(sum_op, prod_op, expr)
        except (NotImplementedError, ValueError, AssertionError, KeyError) as e:
            raise Decline("%s: %s" % (type(e).__name__, str(e)[:80]))
        pin, pout = type_of(prog)
        pairs = []
        # forward value == ordinary evaluation
        got, exp = [], []
        names = [k for k, d in pin.items() if d[0] == "bint"]
        for pt in itertools.product(*(range(pin[k][1]) for k in names)):
            env = dict(zip(names, pt))
            got.append(result_cells(fwd, env)[()])
            exp.append(denote(prog, env, leaves)[()])
        pairs.append((got, exp))
        # adjoint of every (real-valued) leaf == derivative by the one-hot trick
        unit1 = C.UNIT[sr[1]]
        unit0 = C.UNIT[sr[0]]
        by_data = {(id(k.data), tuple(k.inputs)): (k, v) for k, v in bwd.items() if isinstance(k, Tensor)}
        cats = [n for n in _nodes(prog) if n[0] == "cat"]
        for name, l in lf.items():
            if isinstance(l[4], tuple):
                continue
            arr = leaves[name]
            kk_ = (id(arr), tuple(k for k, _ in l[2]))
            if kk_ not in by_data:
                # leaf not on the tape (e.g. consumed by an eager substitution): its adjoint is not reported
                continue
            key, adj = by_data[kk_]
            # Cat is additive: the other parts of a Cat containing this leaf do not contribute to its derivative
            zeroed = set()
            for cn in cats:
                parts_leaves = [set(leaves_of(pp)) for pp in cn[2]]
                if any(name in pl for pl in parts_leaves):
                    for pl in parts_leaves:
                        if name not in pl:
                            zeroed |= pl
            lin = [(k, n) for k, n in l[2]]
            allnames = list(dict.fromkeys([k for k, _ in lin] + names))
            sizes = dict(lin)
            sizes.update({k: pin[k][1] for k in names})
            if not set(adj.inputs) <= set(allnames):
                import z3
                pairs.append((z3.BoolVal(False) if mk.symbolic else False, None))
                continue
            got, exp = [], []
            for pt in itertools.product(*(range(sizes[k]) for k in allnames)):
                env = dict(zip(allnames, pt))
                onehot = np.empty(leaf_shape(l), dtype=object)
                onehot[...] = unit0
                onehot[tuple(env[k] for k, _ in lin)] = unit1
                lv = dict(leaves)
                lv[name] = onehot
                for zn in zeroed:
                    zz = np.empty(leaf_shape(lf[zn]), dtype=object)
                    zz[...] = unit0
                    lv[zn] = zz
                got.append(result_cells(adj, env)[()])
                exp.append(denote(prog, {k: env[k] for k in names}, lv)[()])
            pairs.append((got, exp))
        return pairs
    return ob


def _nodes(e):
    if isinstance(e, tuple):
        if e and isinstance(e[0], str):
            yield e
        for x in e:
            yield from _nodes(x)


def worker(inst):
    from harness.oblig import decide
    from lang.prog import show
    from symx.symarray import use_logsumexp_spec
    use_logsumexp_spec()
    tier = os.environ.get("VERIF_TIER", "quick")
    out = decide("%s/%s|opt=%s|%s" % (inst[1][0], inst[1][1], inst[3], show(inst[2])), build_obligation(inst), timeout_ms=6000 if tier == "quick" else 60000, twin=True)
    out["prog"] = out["label"]
    return out


def instances(tier, seed):
    rng = random.Random(seed)
    out = []
    for sr in SEMIRINGS:
        for wrappers in (False, True):
            progs = gen_exprs(rng, 60 if tier == "quick" else 600, sr[0], sr[1], sr[2], 4 if tier == "quick" else 5, wrappers)
            for p in progs:
                out.append(("adj", sr, p, False))
                if rng.random() < 0.5:
                    out.append(("adj", sr, p, True))
    return out


def main():
    chk = Check("C11", "model_checking")
    insts = instances(chk.tier, chk.seed)
    chk.map("checks.c11", "worker", insts, chunksize=4)
    chk.bounds = dict(leaves="1-4|5 (each occurring once)", variables=dict(VARS), semirings=[s[:2] for s in SEMIRINGS], optimizer="with and without apply_optimizer",
                      wrappers="renaming, slice, Cat with a sibling leaf, injective index substitution (a concrete permutation)")
    chk.assumptions = ["assume-guarantee cut: ops.logsumexp replaced by its specification; maxima of detached log-space arrays abstracted",
                       "plate (product) reductions and their safe inverses are not covered", "the derivative oracle needs every leaf to occur exactly once (the generator guarantees it)"]
    chk.floor = 100
    chk.finish(rule="seeded sum-product expressions per semiring (x optimizer, x leaf wrappers); per instance the forward value and the adjoint of every leaf on the tape are decided; distinct = descriptor",
               trusted_base=["z3 5.1", "symx", "lang.denote (one-hot derivative oracle)"])


if __name__ == "__main__":
    main()
