"""C11 — adjoints are semiring derivatives of the forward value (Engine A).

Oracle: every leaf occurs once, so the expression is semiring-linear in it; the derivative of root[r] with respect to
leaf[x] is the expression evaluated with the leaf replaced by the one-hot array (x -> product unit, elsewhere -> sum
unit).  This is the textbook "sum over all variables the leaf does not mention of the product of all other factor
occurrences", and stays right under renamings / slices / Cat of the leaves."""
import itertools
import os
import random
import sys

sys.path.insert(0, os.path.dirname(os.path.dirname(os.path.abspath(__file__))))

from harness.runner import Check  # noqa: E402

SEMIRINGS = [("add", "mul", "real"), ("logaddexp", "add", "log")]
VARS = [("a", 2), ("b", 3), ("c", 2), ("d", 2)]


def gen_exprs(rng, n, sum_op, prod_op, carrier, max_leaves, wrappers, repeat=False):
    """returns (prog, aliases): aliases maps an occurrence's leaf name to the name of the leaf whose ARRAY it shares
    (the same funsor Tensor occurring more than once)"""
    from lang.prog import binary, cat, leaf, num, reduce_, slice_, subs, var
    out = []
    for _ in range(n):
        k = rng.randint(1, max_leaves)
        ops_ = []
        used_wrap = False
        aliases = {}
        plain = []       # (name, vs) of unwrapped leaves
        must_reduce = set()      # names introduced by a wrapper are always reduced (the derivative with respect to the
        #                          underlying leaf is then a plain function of the leaf's own inputs and the root's)
        for i in range(k):
            vs = [v for v in VARS if rng.random() < 0.55]
            rng.shuffle(vs)
            vs = vs[:3]
            lf = leaf("f%d" % i, tuple(vs), (), carrier)
            e = lf
            if repeat and plain and rng.random() < 0.5:
                # another occurrence of an earlier leaf: the same tensor, as is or with one input renamed to a
                # variable of the same size that it does not mention
                src, svs = rng.choice(plain)
                lf = leaf("f%d" % i, tuple(svs), (), carrier)
                aliases["f%d" % i] = src
                e = lf
                # a tensor occurring more than once: its inputs are reduced, so that the derivative is a function of
                # the tensor's own coordinates (and of root inputs it does not mention) with no name standing for both
                must_reduce.update(n_ for n_, _ in svs)
                others = [(n2, s2) for n2, s2 in VARS for n1, s1 in svs if s1 == s2 and n2 not in dict(svs)]
                if svs and others and rng.random() < 0.6:
                    n2, s2 = rng.choice(others)
                    n1 = rng.choice([a for a, b in svs if b == s2])
                    e = subs(lf, ((n1, var(n2, ("bint", s2))),))
                    must_reduce.add(n2)
                ops_.append(e)
                continue
            if wrappers and vs and rng.random() < 0.4:
                used_wrap = True
                j = rng.randrange(len(vs))
                kk, size = vs[j]
                u = "u%d" % i                                   # the wrapped input gets a name used nowhere else
                uvs = tuple((u, s_) if n_ == kk else (n_, s_) for n_, s_ in vs)
                lf = leaf("f%d" % i, uvs, (), carrier)
                w = rng.choice(["rename", "slice", "cat", "index", "index_same", "slice_full_same", "rename_same"])
                same_size = [(n_, s_) for n_, s_ in vs if n_ != kk and s_ == size]
                if same_size and rng.random() < 0.5:
                    # DIAGONAL: rename an input onto ANOTHER input of the same leaf, x(i=k) with k already an input of x
                    n2, _s2 = rng.choice(same_size)
                    lf = leaf("f%d" % i, tuple(vs), (), carrier)
                    e = subs(lf, ((kk, var(n2, ("bint", size))),))
                    must_reduce.add(n2)
                    ops_.append(e)
                    continue
                if w == "slice_full_same":
                    # a full-range Slice onto the SAME name: value-wise the identity, but a distinct term on the tape
                    lf = leaf("f%d" % i, tuple(vs), (), carrier)
                    e = subs(lf, ((kk, slice_(kk, 0, size, 1, size)),))
                    must_reduce.add(kk)
                    ops_.append(e)
                    continue
                if w == "rename_same":
                    # the identity renaming x(a=a)
                    lf = leaf("f%d" % i, tuple(vs), (), carrier)
                    e = subs(lf, ((kk, var(kk, ("bint", size))),))
                    must_reduce.add(kk)
                    ops_.append(e)
                    continue
                if w == "index_same":
                    # the index tensor is over the SAME name (and size) as the input it replaces: x(i=perm[i])
                    lf = leaf("f%d" % i, tuple(vs), (), carrier)
                    e = subs(lf, ((kk, leaf("perm%d" % i, ((kk, size),), (), ("int", size))),))
                    must_reduce.add(kk)
                elif w == "rename":
                    e = subs(lf, ((u, var(kk, ("bint", size))),))
                    must_reduce.add(kk)
                elif w == "slice" and size >= 2:
                    e = subs(lf, ((u, slice_("s%d" % i, 1, size, 1, size)),))
                    must_reduce.add("s%d" % i)
                elif w == "cat":
                    osize = rng.choice([1, size + 1, size])       # parts of unequal sizes along the concatenated input
                    other = leaf("g%d" % i, tuple((n_, (osize if n_ == u else s_)) for n_, s_ in uvs), (), carrier)
                    e = cat("t%d" % i, (lf, other) if rng.random() < 0.5 else (other, lf), u)
                    if rng.random() < 0.7:      # a sibling factor over the concatenated input: the incoming adjoint depends on it
                        e = binary(prod_op, e, leaf("h%d" % i, (("t%d" % i, size + osize),), (), carrier))
                    must_reduce.add("t%d" % i)
                elif w == "index" and size == 2:
                    e = subs(lf, ((u, leaf("perm%d" % i, ((kk, 2),), (), ("int", 2))),))     # injective index substitution
                    must_reduce.add(kk)
                else:
                    e = subs(lf, ((u, var(kk, ("bint", size))),))
                    must_reduce.add(kk)
            else:
                plain.append(("f%d" % i, vs))
            ops_.append(e)
        e = ops_[0]
        for o in ops_[1:]:
            e = binary(prod_op, e, o)
        from lang.prog import type_of
        try:
            ins = [(kk, d[1]) for kk, d in type_of(e)[0].items() if d[0] == "bint"]
        except Exception:
            continue
        red = tuple(v for v in ins if rng.random() < 0.6 or v[0] in must_reduce)
        if red:
            e = reduce_(sum_op, e, red)
        out.append((e, tuple(sorted(aliases.items()))))
    return out


def gen_nested(rng, n, sum_op, prod_op, carrier):
    """products of separately reduced groups (the same bound name may be reduced in several groups), optionally
    reduced again outside"""
    from lang.prog import binary, leaf, reduce_, type_of
    out = []
    for _ in range(n):
        groups = []
        li = 0
        disjoint = rng.random() < 0.5        # groups over disjoint variable sets: no name is bound twice
        for g_ in range(2 if disjoint else rng.randint(2, 3)):
            k = rng.randint(1, 2)
            e = None
            pool = VARS[2 * g_: 2 * g_ + 2] if disjoint else VARS
            for _i in range(k):
                vs = [v for v in pool if rng.random() < 0.6][:2] or [pool[0]]
                lf = leaf("f%d" % li, tuple(vs), (), carrier)
                li += 1
                e = lf if e is None else binary(prod_op, e, lf)
            ins = [(kk, d[1]) for kk, d in type_of(e)[0].items()]
            red = tuple(v for v in ins if rng.random() < 0.6)
            if red:
                e = reduce_(sum_op, e, red)
            groups.append(e)
        e = groups[0]
        for g_ in groups[1:]:
            e = binary(prod_op, e, g_)
        try:
            ins = [(kk, d[1]) for kk, d in type_of(e)[0].items()]
        except Exception:
            continue
        red = tuple(v for v in ins if rng.random() < 0.5) if not disjoint else ()
        if red:
            e = reduce_(sum_op, e, red)
        out.append((e, ()))
    return out


def build_obligation(inst):
    _, sr, prog, optimize = inst[:4]
    aliases = dict(inst[4]) if len(inst) > 4 else {}

    def ob(mk):
        import numpy as np
        import funsor
        import funsor.ops as ops
        from funsor.adjoint import forward_backward
        from funsor.interpretations import lazy, reflect
        from funsor.optimizer import apply_optimizer
        from funsor.tensor import Tensor
        from harness.core import leaf_shape, result_cells
        from harness.oblig import Decline
        from lang import cellops as C
        from lang.build import build
        from lang.denote import denote
        from lang.prog import leaves_of, type_of
        from symx.symarray import as_obj
        sum_op, prod_op = getattr(ops, sr[0]), getattr(ops, sr[1])
        lf = leaves_of(prog)
        leaves = {}
        for name, l in lf.items():
            car = l[4]
            if isinstance(car, tuple):       # index tensors: a concrete permutation (injective index substitution)
                leaves[name] = np.array({1: [0], 2: [1, 0], 3: [1, 2, 0]}[car[1]], dtype=np.int64)
            elif name in aliases:
                continue
            else:
                leaves[name] = mk.array(name, leaf_shape(l), car)
        for name, src in aliases.items():
            leaves[name] = leaves[src]       # the very same array object: funsor sees one Tensor
        try:
            with (reflect if optimize in ("reflect", "reflect_opt") else lazy):
                # under `lazy` substitutions into tensors are still performed at once; under `reflect` every
                # constructor stays a term, so the tape sees Subs / Slice / Cat nodes as written
                expr = build(prog, leaves)
                if optimize is True:
                    expr = apply_optimizer(expr)
            if optimize == "reflect_opt":
                # a reflect-built expression (Subs / Slice / Cat terms as written) handed to the optimizer: its
                # normalize pass performs the substitutions, so the tape is read like the `lazy` one
                expr = apply_optimizer(expr)
            fwd, bwd = forward_backward(sum_op, prod_op, expr)
        except (NotImplementedError, ValueError, AssertionError, KeyError) as e:
            raise Decline("%s: %s" % (type(e).__name__, str(e)[:80]))
        pin, pout = type_of(prog)
        pairs = []
        # forward value == ordinary evaluation
        got, exp = [], []
        names = [k for k, d in pin.items() if d[0] == "bint"]
        for pt in itertools.product(*(range(pin[k][1]) for k in names)):
            env = dict(zip(names, pt))
            got.append(result_cells(fwd, env)[()])
            exp.append(denote(prog, env, leaves)[()])
        pairs.append((got, exp))
        # adjoint of every (real-valued) leaf == derivative by the one-hot trick
        unit1 = C.UNIT[sr[1]]
        unit0 = C.UNIT[sr[0]]
        by_data = {(id(k.data), tuple(k.inputs)): (k, v) for k, v in bwd.items() if isinstance(k, Tensor)}
        cats = [n for n in _nodes(prog) if n[0] == "cat"]
        # the tape keys a tensor by (array, input names): a renaming of a tensor is performed at once, so a renamed
        # occurrence is reported under its NEW names; occurrences with the same array and the same effective names
        # are one key and their derivatives add up (product rule)
        renames = {}
        for n_ in _nodes(prog):
            if optimize != "reflect" and n_[0] == "subs" and n_[1][0] == "leaf" and all(sv[0] == "var" for _, sv in n_[2]):
                renames[n_[1][1]] = {k_: sv[1] for k_, sv in n_[2]}
        def eff(name):
            return tuple(renames.get(name, {}).get(k_, k_) for k_, _ in lf[name][2])
        groups = {}
        for name in lf:
            if not isinstance(lf[name][4], tuple):
                groups.setdefault((aliases.get(name, name), eff(name)), []).append(name)
        sum2 = C.BINARY[sr[0]]
        checked_keys = 0
        for (canon, enames), occs in groups.items():
            name = occs[0]
            l = lf[name]
            arr = leaves[canon]
            kk_ = (id(arr), enames)
            if kk_ not in by_data:
                if optimize != "reflect":
                    # leaf not on the tape (consumed by a substitution that `lazy` performs at once): not reported
                    continue
                # under reflect every wrapper stays a term, so the leaf IS a leaf of the expression: a missing entry
                # means forward_backward's table answers with the semiring zero
                adj = funsor.to_funsor(ops.UNITS[sum_op])
            else:
                key, adj = by_data[kk_]
            checked_keys += 1
            # Cat is additive: the other parts of a Cat containing this leaf do not contribute to its derivative
            zeroed = set()
            for cn in cats:
                parts_leaves = [set(leaves_of(pp)) for pp in cn[2]]
                if any(name in pl for pl in parts_leaves):
                    for pl in parts_leaves:
                        if name not in pl:
                            zeroed |= pl
            lin = [(en, n) for en, (k, n) in zip(enames, l[2])]
            allnames = list(dict.fromkeys([k for k, _ in lin] + names))
            sizes = dict(lin)
            sizes.update({k: pin[k][1] for k in names})
            if not set(adj.inputs) <= set(allnames):
                import z3
                pairs.append((z3.BoolVal(False) if mk.symbolic else False, None))
                continue
            got, exp = [], []
            for pt in itertools.product(*(range(sizes[k]) for k in allnames)):
                env = dict(zip(allnames, pt))
                onehot = np.empty(leaf_shape(l), dtype=object)
                onehot[...] = unit0
                onehot[tuple(env[k] for k, _ in lin)] = unit1
                tot = None
                for occ in occs:     # product rule over the occurrences of the same tensor
                    lv = dict(leaves)
                    lv[occ] = onehot
                    for zn in zeroed:
                        zz = np.empty(leaf_shape(lf[zn]), dtype=object)
                        zz[...] = unit0
                        lv[zn] = zz
                    d_ = denote(prog, {k: env[k] for k in names}, lv)[()]
                    tot = d_ if tot is None else sum2(tot, d_)
                got.append(result_cells(adj, env)[()])
                exp.append(tot)
            pairs.append((got, exp))
        return pairs
    return ob


def _nodes(e):
    if isinstance(e, tuple):
        if e and isinstance(e[0], str):
            yield e
        for x in e:
            yield from _nodes(x)


def worker(inst):
    from harness.oblig import decide
    from lang.prog import show
    from symx.symarray import use_logsumexp_spec
    use_logsumexp_spec()
    tier = os.environ.get("VERIF_TIER", "quick")
    out = decide("%s/%s|opt=%s|%s%s" % (inst[1][0], inst[1][1], inst[3], show(inst[2]), ("|same:%s" % dict(inst[4])) if len(inst) > 4 and inst[4] else ""), build_obligation(inst), timeout_ms=6000 if tier == "quick" else 60000, twin=True)
    out["prog"] = out["label"]
    return out


def instances(tier, seed):
    rng = random.Random(seed)
    out = []
    def underscored(p):
        """the same program over variable names that contain underscores (a -> a_1, b -> b_prev, s0 -> s_0 ...)"""
        m = {"a": "a_1", "b": "b_prev", "c": "c_1_x", "d": "_d"}
        import re as _re

        def go(x):
            if isinstance(x, str):
                if x in m:
                    return m[x]
                if _re.fullmatch(r"[ust]\d+", x):
                    return x[0] + "_" + x[1:]
                return x
            if isinstance(x, tuple):
                return tuple(go(y) for y in x)
            return x
        return go(p)
    base_len = None
    for sr in SEMIRINGS:
        for wrappers, repeat in ((False, False), (True, False), (False, True), (True, True)):
            progs = gen_exprs(rng, (60 if not repeat else 40) if tier == "quick" else 600, sr[0], sr[1], sr[2], 4 if tier == "quick" else 5, wrappers, repeat)
            for p, al in progs:
                out.append(("adj", sr, p, False, al))
                if rng.random() < 0.5:
                    out.append(("adj", sr, p, True, al))
                if wrappers or repeat or rng.random() < 0.3:
                    out.append(("adj", sr, p, "reflect", al))
                if rng.random() < 0.2:
                    out.append(("adj", sr, underscored(p), rng.choice([False, True, "reflect"]), al))
        for p, al in gen_nested(rng, 40 if tier == "quick" else 400, sr[0], sr[1], sr[2]):
            for mode in (False, True, "reflect"):
                out.append(("adj", sr, p, mode, al))
    # appended after the seeded instances (their RNG stream is untouched): reflect-built expressions with leaf
    # wrappers handed to apply_optimizer
    rng2 = random.Random(seed * 7919 + 11)
    for sr in SEMIRINGS:
        for wrappers, repeat in ((True, False), (True, True)):
            for p, al in gen_exprs(rng2, 12 if tier == "quick" else 150, sr[0], sr[1], sr[2], 4 if tier == "quick" else 5, wrappers, repeat):
                out.append(("adj", sr, p, "reflect_opt", al))
    return out


def main():
    chk = Check("C11", "model_checking")
    insts = instances(chk.tier, chk.seed)
    chk.map("checks.c11", "worker", insts, chunksize=4)
    chk.bounds = dict(leaves="1-4|5 occurrences; the same tensor may occur several times (as is, or with an input renamed)", variables=dict(VARS), semirings=[s[:2] for s in SEMIRINGS], optimizer="built under lazy (with and without apply_optimizer), under reflect, and under reflect followed by apply_optimizer (there the optimizer evaluates the wrappers, the original leaves are no longer on the tape: forward value only)",
                      wrappers="renaming, slice, Cat with a sibling leaf, injective index substitution (a concrete permutation; over a fresh name and over the SAME name as the replaced input)")
    chk.assumptions = ["assume-guarantee cut: ops.logsumexp replaced by its specification; maxima of detached log-space arrays abstracted",
                       "plate (product) reductions and their safe inverses are not covered", "repeated occurrences of one tensor are handled by the product rule (one one-hot substitution per occurrence, summed)"]
    chk.floor = 100
    chk.finish(rule="seeded sum-product expressions per semiring (x optimizer, x leaf wrappers); per instance the forward value and the adjoint of every leaf on the tape are decided; distinct = descriptor",
               trusted_base=["z3 5.1", "symx", "lang.denote (one-hot derivative oracle)"])


if __name__ == "__main__":
    main()
