"""C18 — compiled and traced programs compute what interpretation computes (translation validation, Engine A)."""
import itertools
import os
import random
import sys
from collections import OrderedDict

sys.path.insert(0, os.path.dirname(os.path.dirname(os.path.abspath(__file__))))

from harness.runner import Check  # noqa: E402

VARS = {"x": ("real", (2,)), "y": ("real", (2,)), "m": ("real", (2, 2)), "s": ("real", ()), "w": ("real", (2, 2)), "k": ("bint", 2),
        "c3": ("real", (2, 2, 3))}


def gen_programs(rng, n, depth, allow_tensor_consts):
    from lang.gen import well_typed
    from lang.prog import binary, getitem, getitem_at, getslice, leaf, num, outreduce, reshape, type_of, unary, var
    out = []
    for _ in range(n * 4):
        if len(out) >= n:
            break
        pool = [var(k, d) for k, d in VARS.items() if d[0] == "real"] + [num(2.0), num(-0.5)]
        if allow_tensor_consts:
            pool += [leaf("c1", (), (2,), "real"), leaf("c2", (), (2, 2), "real")]
        kvar = var("k", ("bint", 2))
        exprs = list(pool)
        for _ in range(depth + rng.randint(0, 2)):
            kind = rng.choice(["un", "bin", "bin", "bin", "matmul", "red", "getitem", "reshape", "share"])
            try:
                if kind == "un":
                    e = unary(rng.choice(["neg", "abs", "exp", "tanh", "sigmoid"]), rng.choice(exprs))
                elif kind == "bin":
                    e = binary(rng.choice(["add", "sub", "mul", "max", "min", "sub", "lt"]), rng.choice(exprs), rng.choice(exprs))
                elif kind == "matmul":
                    e = binary("matmul", rng.choice(exprs), rng.choice(exprs))
                elif kind == "red":
                    a = rng.choice(exprs)
                    sh = type_of(a)[1][1]
                    e = outreduce(rng.choice(["sum", "amax", "prod", "mean"]), a, rng.choice([None] + list(range(len(sh)))) if sh else None, rng.random() < 0.3)
                elif kind == "getitem":
                    a = rng.choice([x for x in exprs if x[0] != "num"])      # a python number cannot be indexed
                    rk = len(type_of(a)[1][1])
                    if rk >= 2 and rng.random() < 0.4:      # x[:, k] / x[:, :, k]: GetitemOp(offset) on a middle or last dim of size 2
                        offs = [o for o in range(1, rk) if type_of(a)[1][1][o] == 2]
                        e = getitem_at(a, kvar, rng.choice(offs)) if offs else getitem(a, kvar)
                    else:
                        e = getitem(a, kvar) if rng.random() < 0.6 else getslice(a, rng.choice([0, -1, slice(1, None), (Ellipsis, 0), None, (None, Ellipsis), (slice(None), None), Ellipsis]))
                elif kind == "reshape":
                    a = rng.choice([x for x in exprs if type_of(x)[1][1]])
                    sh = type_of(a)[1][1]
                    tot = 1
                    for t in sh:
                        tot *= t
                    e = reshape(a, (tot,) if len(sh) != 1 else (tot, 1))
                else:       # shared sub-expression used twice (non-commutative op)
                    a = rng.choice(exprs)
                    e = rng.choice([binary("sub", binary("mul", a, a), a), binary("sub", a, unary("neg", a)), binary("add", a, binary("mul", a, num(2.0)))])
            except Exception:
                continue
            if well_typed(e) and type_of(e)[1][0] in ("real", 2):
                exprs.append(e)
        e = exprs[-1]
        if e in pool or not well_typed(e):
            continue
        if type_of(e)[1][0] != "real" or not type_of(e)[0]:
            continue        # the program must have at least one input
        out.append(e)
    return out


def ops_eval(e, data, leaves, memo=None):
    """the same expression as a plain function of funsor.ops on backend arrays (for trace_function); with `memo`
    equal sub-expressions are computed once and their value is reused (a shared intermediate in the traced DAG)"""
    if memo is not None:
        if e in memo:
            return memo[e]
        memo[e] = r = ops_eval(e, data, leaves, None) if e[0] in ("var", "num", "leaf") else _ops_eval_shared(e, data, leaves, memo)
        return r
    import funsor.ops as ops
    tag = e[0]
    if tag == "var":
        return data[e[1]]
    if tag == "num":
        return e[1]
    if tag == "leaf":
        return leaves[e[1]]
    if tag == "unary":
        return getattr(ops, e[1])(ops_eval(e[2], data, leaves))
    if tag == "binary":
        return getattr(ops, e[1])(ops_eval(e[2], data, leaves), ops_eval(e[3], data, leaves))
    if tag == "outreduce":
        return getattr(ops, e[1])(ops_eval(e[2], data, leaves), axis=e[3], keepdims=e[4])
    if tag == "getitem":
        return ops.getitem(ops_eval(e[1], data, leaves), ops_eval(e[2], data, leaves))
    if tag == "getitem_at":
        return ops.getitem(ops_eval(e[1], data, leaves), ops_eval(e[2], data, leaves), offset=e[3])
    if tag == "getslice":
        return ops.getslice(ops_eval(e[1], data, leaves), e[2])
    if tag == "reshape":
        from funsor.ops.array import reshape
        return reshape(ops_eval(e[1], data, leaves), e[2])
    raise NotImplementedError(tag)


def _ops_eval_shared(e, data, leaves, memo):
    import funsor.ops as ops
    tag = e[0]
    ev = lambda x: ops_eval(x, data, leaves, memo)      # noqa: E731
    if tag == "unary":
        return getattr(ops, e[1])(ev(e[2]))
    if tag == "binary":
        return getattr(ops, e[1])(ev(e[2]), ev(e[3]))
    if tag == "outreduce":
        return getattr(ops, e[1])(ev(e[2]), axis=e[3], keepdims=e[4])
    if tag == "getitem":
        return ops.getitem(ev(e[1]), ev(e[2]))
    if tag == "getitem_at":
        return ops.getitem(ev(e[1]), ev(e[2]), offset=e[3])
    if tag == "getslice":
        return ops.getslice(ev(e[1]), e[2])
    if tag == "reshape":
        from funsor.ops.array import reshape
        return reshape(ev(e[1]), e[2])
    raise NotImplementedError(tag)


def build_obligation(inst):
    _, prog, mode = inst

    def ob(mk):
        import pickle
        import numpy as np
        import z3
        import funsor
        from funsor.compiler import compile_funsor
        from funsor.interpretations import lazy
        from funsor.ops.tracer import trace_function
        from harness.core import leaf_shape
        from harness.oblig import Decline
        from lang.build import build
        from lang.denote import denote
        from lang.prog import leaves_of, type_of
        pin, pout = type_of(prog)
        lf = leaves_of(prog)
        leaves = {name: mk.array(name, leaf_shape(l), l[4]) for name, l in lf.items()}
        if mode == "code_const":      # CONCRETE tensor constants of mixed sign (so that they can be printed), symbolic inputs
            crng = np.random.RandomState(len(str(prog)))
            leaves = {name: np.round(crng.randn(*leaf_shape(l)) * 3, 2) for name, l in lf.items()}
            for name, a in leaves.items():      # 1-d constants as [+, -, -, ...]: str() of such an array is a valid but different expression
                if a.ndim == 1:
                    leaves[name] = np.abs(a) * np.array([1.0] + [-1.0] * (a.size - 1)) + np.array([0.5] + [-0.5] * (a.size - 1))
        data = OrderedDict()
        env = {}
        kvals = [None]
        for k, d in pin.items():
            if d[0] == "real":
                data[k] = mk.array("in_" + k, tuple(d[1]), "real")
                env[k] = data[k]
        bints = [k for k, d in pin.items() if d[0] == "bint"]
        pairs = []
        for kvs in itertools.product(*(range(pin[k][1]) for k in bints)):
            dat = OrderedDict(data)
            e2 = dict(env)
            for k, kv in zip(bints, kvs):
                dat[k] = np.array(kv)
                e2[k] = kv
            dat = OrderedDict((k, dat[k]) for k in pin)
            exp = denote(prog, e2, leaves)
            try:
                if mode in ("code_vnames", "code_const"):
                    with lazy:
                        expr = build(prog, leaves)
                    ren = OrderedDict((k, "v%d" % i) for i, k in enumerate(reversed(list(expr.inputs)))) if mode == "code_vnames" else {}
                    if ren:       # inputs named like the printed program's own locals
                        with lazy:
                            expr = expr(**{k: funsor.Variable(v, expr.inputs[k]) for k, v in ren.items()})
                    program = compile_funsor(expr)
                    ns = {}
                    exec(program.as_code("prog_fn"), ns)
                    got = ns["prog_fn"](**{ren.get(k, k): v for k, v in dat.items()})
                    pairs.append((program(**{ren.get(k, k): v for k, v in dat.items()}), exp))
                elif mode in ("compile", "code", "pickle", "kwargs", "compile_normalize", "code_normalize"):
                    from funsor.interpretations import normalize
                    with (normalize if mode.endswith("_normalize") else lazy):
                        expr = build(prog, leaves)
                    program = compile_funsor(expr)
                    if mode == "compile_normalize":
                        got = program(**dat)
                    elif mode == "code_normalize":
                        ns = {}
                        exec(program.as_code("prog_fn"), ns)
                        got = ns["prog_fn"](**dat)
                    elif mode == "compile":
                        got = program(**dat)
                        # relational: the same as substituting the arrays into the expression
                        sub = expr(**{k: funsor.Tensor(v) if k not in bints else funsor.Number(int(v), pin[k][1]) for k, v in dat.items()})
                        sub = funsor.reinterpret(sub)
                        if hasattr(sub, "data"):
                            pairs.append((got, sub.data))
                    elif mode == "code":
                        ns = {}
                        exec(program.as_code("prog_fn"), ns)
                        got = ns["prog_fn"](**dat)
                    elif mode == "pickle":
                        got = pickle.loads(pickle.dumps(program))(**dat)
                    else:
                        ok = True
                        if dat:
                            miss = dict(dat)
                            miss.pop(next(iter(miss)))
                            try:
                                program(**miss)
                                ok = False
                            except (ValueError, TypeError):
                                pass
                        try:
                            program(**dict(dat, unexpected_input=np.zeros(())))
                            ok = False
                        except (ValueError, TypeError):
                            pass
                        pairs.append((z3.BoolVal(ok) if mk.symbolic else ok, None))
                        continue
                elif mode in ("trace", "trace_shared", "trace_extra"):
                    def fn(**kw):
                        return ops_eval(prog, kw, leaves, {} if mode == "trace_shared" else None)
                    if mode == "trace_extra":      # an input the function does not use (listed last)
                        dat["zz_unused"] = mk.array("in_zz", (2,), "real")
                    # trace on one set of arrays, run on ANOTHER: values captured at trace time must not be baked in
                    dat_tr = OrderedDict((k, (mk.array("tr_" + k, tuple(np.shape(v)), "real") if k not in bints else v)) for k, v in dat.items())
                    try:
                        program = trace_function(fn, dict(dat_tr), allow_constants=True)
                    except (KeyError, ValueError, AssertionError) as e:
                        raise Decline("tracer rejects the function: %s: %s" % (type(e).__name__, str(e)[:60]))
                    got = program(**dat)
                    pairs.append((got, fn(**dat)))
            except (NotImplementedError,) as e:
                raise Decline("%s: %s" % (type(e).__name__, str(e)[:80]))
            pairs.append((got, exp))
        return pairs
    return ob


TRACE_FNS = {
    "stack0": (("x", "y"), lambda ops, x, y: ops.stack((x, y), 0)),
    "stack_last": (("x", "y"), lambda ops, x, y: ops.stack((x, ops.exp(y)), -1)),
    "stack3_add": (("x", "y"), lambda ops, x, y: ops.add(ops.stack((x, y, x), 0), 1.0)),
    "cat": (("x", "y"), lambda ops, x, y: ops.cat((x, ops.neg(y)), 0)),
    "einsum": (("m", "w"), lambda ops, m, w: ops.einsum((m, w), "ab,bc->ac")),
    # the tuple itself is the input of the traced function (the documented spelling for finitary ops)
    "tuple_input_stack": (("parts:x,y",), lambda ops, parts: ops.mul(ops.exp(ops.stack(parts, 0)), 2.0)),
    "tuple_input_cat_mixed": (("parts:x,y", "x"), lambda ops, parts, x: ops.add(ops.cat(parts, 0), ops.cat((x, x), 0))),
}


def tracefn_worker(inst):
    """hand-written functions of FINITARY ops (their operand is a tuple of arrays built inside the function), traced on
    one set of arrays and run on another; both trace_function defaults and allow_constants=True"""
    from harness.oblig import decide, Decline
    _, name, allow = inst
    argnames, f = TRACE_FNS[name]

    def ob(mk):
        import numpy as np
        import funsor.ops as ops
        from funsor.ops.tracer import trace_function
        from symx.symarray import as_obj
        def arrays(prefix):
            d = OrderedDict()
            for k in argnames:
                if ":" in k:        # a tuple-valued input
                    nm, elts = k.split(":")
                    d[nm] = tuple(mk.array("%s_%s_%s" % (prefix, nm, e), tuple(VARS[e][1]), "real") for e in elts.split(","))
                else:
                    d[k] = mk.array("%s_%s" % (prefix, k), tuple(VARS[k][1]), "real")
            return d
        run, tr = arrays("in"), arrays("tr")
        try:
            program = trace_function(lambda **kw: f(ops, **kw), dict(tr), allow_constants=allow)
        except (KeyError, ValueError, AssertionError) as e:
            raise Decline("tracer rejects the function: %s: %s" % (type(e).__name__, str(e)[:60]))
        got = program(**run)
        exp = f(ops, **run)
        return [(got, exp)]
    out = decide("tracefn|%s|allow_constants=%s" % (name, allow), ob, timeout_ms=8000, twin=False)
    out["prog"] = out["label"]
    out["programs"] = 1
    return out


def worker(inst):
    from harness.oblig import decide
    from lang.prog import show
    tier = os.environ.get("VERIF_TIER", "quick")
    out = decide("%s|%s" % (inst[2], show(inst[1])), build_obligation(inst), timeout_ms=6000 if tier == "quick" else 60000, twin=True)
    out["prog"] = out["label"]
    out["programs"] = 1
    return out


def instances(tier, seed):
    rng = random.Random(seed)
    out = []
    n = 60 if tier == "quick" else 600
    from lang.prog import var as _var
    for k, d in VARS.items():
        if d[0] == "real":
            out.append(("p", _var(k, d), "trace_extra"))      # the traced function returns one of its inputs
            out.append(("p", _var(k, d), "trace"))
            out.append(("p", _var(k, d), "compile"))
    for p in gen_programs(rng, n, 3 if tier == "quick" else 4, True):
        out.append(("p", p, "compile"))
        if rng.random() < 0.5:
            out.append(("p", p, "trace"))
        if rng.random() < 0.5:
            out.append(("p", p, rng.choice(["trace_shared", "trace_extra"])))
        if rng.random() < 0.2:
            out.append(("p", p, "kwargs"))
    # parametrised ops with an earlier parameter at its default and a later one not (printing / pickling of op params)
    from lang.prog import outreduce, var, binary, num, type_of, leaves_of
    m = var("m", VARS["m"])
    for opn in ("sum", "amax", "amin", "prod", "mean", "var", "std", "logsumexp"):
        for axis, kd in ((None, True), (0, True), (1, False), (-1, True), (None, False)):
            p = binary("add", outreduce(opn, m if opn != "logsumexp" else m, axis, kd), num(2.0))
            for mode in ("compile", "code", "pickle", "trace"):
                out.append(("p", p, mode))
    # a tensor CONSTANT with a named input: the program must use that input (or the compiler must decline)
    from lang.prog import leaf as _leaf, unary
    ci = _leaf("ci", (("i", 2),), (2,), "real")
    cij = _leaf("cij", (("i", 2), ("j", 3)), (), "real")
    for p in (binary("add", ci, var("x", VARS["x"])), binary("mul", var("s", VARS["s"]), cij), unary("exp", binary("sub", var("x", VARS["x"]), ci))):
        out.append(("p", p, "compile"))
    # op parameters that are None / Ellipsis / tuples with None (printing and pickling of op parameters)
    from lang.prog import getslice
    for base in (var("x", VARS["x"]), var("m", VARS["m"])):
        for index in (None, Ellipsis, (None, Ellipsis), (slice(None), None), (Ellipsis, None), 0, (Ellipsis, 0), slice(None, None, 2)):
            try:
                p = binary("add", getslice(base, index), num(1.0))
                type_of(p)
            except Exception:
                continue
            for mode in ("compile", "code", "pickle"):
                out.append(("p", p, mode))
    # flat n-ary contractions (built under normalize): every arity, commutative and mixed shapes
    from lang.prog import unary
    from lang.gen import well_typed
    scal = [var(k, d) for k, d in VARS.items() if d[0] == "real" and not d[1]] or [var(k, d) for k, d in VARS.items() if d[0] == "real"][:1]
    same = [v for v in [var(k, d) for k, d in VARS.items() if d[0] == "real"] if type_of(v)[1] == type_of(scal[0])[1]]
    for opn in ("add", "mul", "max"):
        for arity in range(2, 10 if tier == "quick" else 19):
            terms = []
            for i in range(arity):
                base = same[i % len(same)]
                terms.append(base if i < len(same) else unary(("exp", "tanh", "sigmoid", "abs")[i % 4], binary("mul", base, num(float(i)))))
            e = terms[0]
            for t in terms[1:]:
                e = binary(opn, e, t)
            if well_typed(e):
                out.append(("p", e, "compile_normalize"))
                out.append(("p", e, "code_normalize"))
    for p in gen_programs(rng, n // 2, 3 if tier == "quick" else 4, False):
        out.append(("p", p, "compile_normalize"))
    for p in gen_programs(rng, n // 3, 3 if tier == "quick" else 4, False):
        out.append(("p", p, "code_vnames"))
    for p in gen_programs(rng, n, 2 if tier == "quick" else 3, True):
        if any(nm in ("c1", "c2") for nm in leaves_of(p)):
            out.append(("p", p, "code_const"))
    c1 = _leaf("c1", (), (2,), "real")
    for p in (binary("mul", var("x", VARS["x"]), c1), unary("exp", binary("sub", c1, var("x", VARS["x"]))), binary("matmul", var("m", VARS["m"]), c1)):
        out.append(("p", p, "code_const"))
    for p in gen_programs(rng, n, 3 if tier == "quick" else 4, False):      # number constants only: printable / picklable
        out.append(("p", p, "compile"))
        out.append(("p", p, "code"))
        out.append(("p", p, "pickle"))
        if rng.random() < 0.5:
            out.append(("p", p, "trace"))
    return out


def main():
    chk = Check("C18", "translation_validation")
    insts = instances(chk.tier, chk.seed)
    chk.map("checks.c18", "worker", insts, chunksize=4)
    chk.map("checks.c18", "tracefn_worker", [("tracefn", n, a) for n in TRACE_FNS for a in (False, True)], chunksize=1, family="tracefn")
    chk.extra_cov = dict(programs=len({o.get("prog") for o in chk.outcomes if o["status"] == "ok"}), disagreements_checked=sum(o.get("cells", 0) for o in chk.outcomes))
    chk.bounds = dict(inputs={k: str(v) for k, v in VARS.items()}, depth="<= 3 | 4 (+ up to 2 extra steps)", constants="numbers and (for compile/trace) tensor constants",
                      routes=["compile_funsor(e)(**data) for e built under lazy and under normalize (flat Contractions of arity 2-9|18)", "exec(program.as_code())", "pickle round trip", "trace_function(f, data)", "missing / unexpected kwargs rejected"])
    chk.assumptions = ["pickle is exercised on programs whose constants are numbers (symbolic cells are not picklable); as_code additionally on programs with CONCRETE tensor constants (code_const) and on programs whose inputs are named like the printed locals (code_vnames)",
                       "integer inputs are enumerated (Bint[2]), array inputs and tensor constants are symbolic"]
    chk.floor = 100
    chk.finish(rule="seeded expressions in the compiler's fragment (unary, binary incl. non-commutative ops and matmul, output reductions, getitem/getslice, reshape, shared sub-expressions, constants); one instance per (expression, route); distinct = printed expression + route",
               trusted_base=["z3 5.1", "symx", "lang.denote"])


if __name__ == "__main__":
    main()
