"""C02 — every rewrite step of an exact interpretation preserves value (Engine A + rule monitor)."""
import collections
import os
import random
import sys

sys.path.insert(0, os.path.dirname(os.path.dirname(os.path.abspath(__file__))))

from harness.runner import Check  # noqa: E402

SCHEDS = ["immediate", "lazy", "normalize", "lazy_normalize_eager", "unfold", "optimizer", "sequential"]


def _concrete_firings(prog, builder, cleaves):
    """replay: run the program on float64 leaves with the monitor on; numerically compare every firing's result
    with its redex through the oracle.  returns list of (interp, rule, detail)"""
    import itertools
    import numpy as np
    from lang import cellops as C
    from lang.denote import OracleUndefined, denote
    from lang.fromterm import Conv, NoSemantics
    from lang.prog import IllTyped, type_of
    from monitor import rules as R
    from symx import engine
    engine.reset()
    rec = R.Recorder()
    st = {}
    rec.begin(st)
    try:
        with np.errstate(all="ignore"):
            builder(prog, cleaves)
    except Exception:
        pass
    rec.end(st, None)
    bad = []
    rng = random.Random(0)
    for interp, rule, cls, args, result in st["firings"]:
        conv = Conv()
        try:
            redex = conv.app(cls, args)
            res = conv.term(result)
            rin, _ = type_of(redex)
            sin, _ = type_of(res)
        except (NoSemantics, IllTyped, KeyError, AttributeError, TypeError):
            continue
        if R.outside_carrier(redex) or R.outside_carrier(res) or R.data_outside_carrier((redex, res), conv.leaves):
            continue
        extra = [k for k in sin if k not in rin]
        if extra:
            bad.append((interp, rule, "result depends on new inputs %s" % extra))
            continue
        env0 = {k: np.array([rng.uniform(-2, 2) for _ in range(int(np.prod(d[1], dtype=int)))]).reshape(d[1]) for k, d in rin.items() if d[0] == "real"}
        names = [k for k, d in rin.items() if d[0] == "bint"]
        try:
            for pt in itertools.product(*(range(rin[k][1]) for k in names)):
                env = dict(zip(names, pt))
                env.update(env0)
                try:
                    a = denote(res, env, conv.leaves)
                    b = denote(redex, env, conv.leaves)
                except OracleUndefined:
                    continue
                if a.shape != b.shape:
                    bad.append((interp, rule, "shape %s vs %s" % (a.shape, b.shape)))
                    break
                diff = [(i, a[i], b[i]) for i in np.ndindex(*a.shape) if not (isinstance(b[i], float) and b[i] != b[i]) and not C.concrete_close(a[i], b[i])]
                if diff:
                    i, x, y = diff[0]
                    bad.append((interp, rule, "at %s%s result %r but redex means %r" % (env if not env0 else pt, list(i), _py(x), _py(y))))
                    break
        except Exception:
            continue
    return bad


def _py(x):
    return x.item() if hasattr(x, "item") else x


def worker(inst):
    import numpy as np
    from harness.core import (_real_env, concretize_leaves, conc_leaves, sym_leaves, nice_model)
    from harness.schedules import SCHEDULES
    from lang.prog import IllTyped, show, type_of
    from monitor import rules as R
    from symx import engine
    from symx.engine import Unsupported
    from symx.symarray import install
    install()
    sched, theme, prog = inst
    builder = SCHEDULES[sched]
    tmo = 1500 if os.environ.get("VERIF_TIER", "quick") == "quick" else 5000
    out = dict(status="ok", prog=show(prog), label="%s|%s" % (sched, theme), detail="", paths=0, obligations=0, discharged=0,
               nontrivial=False, firings=0, skipped=0, rules={}, inconclusive_firings=0)
    try:
        pin, pout = type_of(prog)
    except IllTyped as e:
        out.update(status="illtyped", detail=str(e))
        return out
    st = {}

    def setup(c):
        st["leaves"] = c.notes_leaves = sym_leaves(prog)
        st["env"] = c.notes_env = _real_env(pin, True, None)

    def body():
        rec = R.Recorder()
        rec.begin(st)
        try:
            builder(prog, st["leaves"])
        finally:
            rec.end(st, None)
        return list(st["firings"])
    try:
        paths = engine.explore(body, max_paths=32, setup=setup)
    except engine.PathCapExceeded:
        out.update(status="inconclusive", detail="path cap")
        return out
    out["paths"] = len(paths)
    rules = collections.Counter()
    for pr in paths:
        engine.CUR = pr.ctx
        firings = pr.value if pr.exc is None else getattr(pr.ctx, "notes_firings", [])
        if pr.exc is not None and isinstance(pr.exc, Unsupported):
            out.update(status="unsupported", detail=str(pr.exc)[:150])
            return out
        hyps = pr.ctx.hyps()
        for f in firings:
            out["firings"] += 1
            try:
                d = R.decide_firing(f, hyps, pr.ctx.notes_env, tmo)
            except Unsupported as e:
                d = dict(status="skipped", why=str(e)[:80])
            if d["status"] == "skipped":
                out["skipped"] += 1
                continue
            out["obligations"] += 1
            rules[(f[0], f[1])] += 1
            if d["status"] == "ok":
                out["discharged"] += 1
                if not d.get("trivial"):
                    out["nontrivial"] = True
                continue
            if d["status"] == "inconclusive":
                out["inconclusive_firings"] += 1
                continue
            if d["status"] in ("sat", "violation"):
                # replay the whole program on float64 with the monitor on
                models = []
                if d["status"] == "sat":
                    arrays = list(pr.ctx.notes_leaves.values()) + list(pr.ctx.notes_env.values())
                    models = [d["model"]]
                cands = []
                for m in models:
                    try:
                        cands.append(concretize_leaves(prog, pr.ctx.notes_leaves, m))
                    except Unsupported:
                        pass
                rng = random.Random(1)
                cands.append(conc_leaves(prog, rng))
                cands.append(conc_leaves(prog, rng))
                for cl in cands:
                    bad = _concrete_firings(prog, builder, cl)
                    bad = [b for b in bad if b[1] == f[1]] or bad
                    if bad:
                        interp, rule, why = bad[0]
                        out.update(status="violation", kind="rule", rule=rule, interp=interp,
                                   detail="rule %s (%s): %s" % (rule, interp, why),
                                   replay=dict(prog=prog, schedule=sched, leaves={k: np.asarray(v).tolist() for k, v in cl.items()}, rule=rule))
                        out["rules"] = {"%s:%s" % k: v for k, v in rules.items()}
                        return out
                out["inconclusive_firings"] += 1
    out["rules"] = {"%s:%s" % k: v for k, v in rules.items()}
    if out["obligations"] == 0 and out["firings"] == 0:
        out["status"] = "declined"
        out["detail"] = "no rule fired"
    return out


def programs(tier, seed):
    from lang import gen
    from checks.c08 import SEMIRINGS, gen_sumproducts, gen_sameop, gen_mixed, gen_distributive
    from checks.c05 import instances as c05_instances
    rng = random.Random(seed)
    out = []
    def sig(p):
        """structural signature of a program: root tag, op, and the tags/ops of its direct children"""
        def t(x):
            if isinstance(x, tuple) and x and isinstance(x[0], str):
                return (x[0], x[1] if len(x) > 1 and isinstance(x[1], str) and x[0] in ("unary", "binary", "reduce", "outreduce") else None)
            if isinstance(x, tuple):
                return tuple(t(y) for y in x if isinstance(y, tuple))
            return None
        return (t(p), tuple(t(x) for x in p[1:] if isinstance(x, tuple)))
    for theme in ("real", "log", "bool", "int", "pos"):
        d1 = list(gen.depth1(theme))
        rng.shuffle(d1)
        # stratified: every structural signature (constructor x op x argument kinds) is represented, so that every
        # eager rule reachable from the depth-1 family fires in every run
        per_sig, chosen, rest = collections.Counter(), [], []
        for p in d1:
            k = sig(p)
            if per_sig[k] < (1 if tier == "quick" else 4):
                per_sig[k] += 1
                chosen.append(p)
            else:
                rest.append(p)
        if theme == "real":      # every index-by-tensor / index-by-variable shape (the getitem rules' argument layouts)
            chosen += [p for p in rest if p[0] in ("getitem", "getitem_at")]
        out += [(theme, p) for p in chosen + rest[:40 if tier == "quick" else 150]]
        d2 = list(gen.depth2(theme, rng, per_inner=1 if tier == "quick" else 2))
        rng.shuffle(d2)
        out += [(theme, p) for p in d2[:40 if tier == "quick" else 150]]
    for sr in SEMIRINGS:
        out += [("%s/%s" % sr[:2], p) for p in gen_sumproducts(rng, 25 if tier == "quick" else 80, sr[0], sr[1], sr[2], 4 if tier == "quick" else 6)]
    out += [("sameop:" + op, p) for op, car, p in gen_sameop(rng, 30 if tier == "quick" else 120)]
    out += [("mixed/nonneg", p) for p in gen_mixed(rng, 30 if tier == "quick" else 120)]
    for sr in SEMIRINGS[:4]:
        out += [("%s/%s" % sr[:2], p) for p in gen_distributive(rng, 8 if tier == "quick" else 40, sr[0], sr[1], sr[2])]
    c5 = [i for i in c05_instances(tier, seed) if i[0] == "immediate"]
    rng.shuffle(c5)
    out += [("binders", i[2]) for i in c5[:60 if tier == "quick" else 150]]
    out += [("real", p) for p in gen.einsum_progs()] + [("real", p) for p in gen.constant_progs()] + [("real", p) for p in gen.nondistributive_progs()] + [("real", p) for p in gen.matmul_progs()] + [("real", p) for p in gen.stack_hetero_progs()] + [("log", p) for p in gen.constant_progs("log")]
    return out


def main():
    chk = Check("C02", "model_checking")
    progs = programs(chk.tier, chk.seed)
    rng = random.Random(chk.seed)
    insts = []
    def mixes_maxmin_mul(p):
        from harness.known import _nodes
        ops_ = {n[1] for n in _nodes(p) if n[0] in ("binary", "reduce")}
        return bool(ops_ & {"max", "min"}) and bool(ops_ & {"mul", "truediv", "pow"})
    for theme, p in progs:
        scheds = SCHEDS
        if "/" not in theme and mixes_maxmin_mul(p):
            # (max|min, mul) distributes on non-negative data only: the distributing passes are exercised on this op
            # pair through the semiring families (non-negative carrier), not through free-form real programs
            scheds = [x for x in SCHEDS if x not in ("unfold", "optimizer")]
        for s in (rng.sample(scheds, min(5, len(scheds))) if chk.tier != "quick" else rng.sample(scheds, 3)):
            insts.append((s, theme, p))
    chk.map("checks.c02", "worker", insts, chunksize=6)
    fired = collections.Counter()
    for o in chk.outcomes:
        for k, v in (o.get("rules") or {}).items():
            fired[k] += v
    from monitor import rules as R
    R.install()
    import funsor.cnf, funsor.tensor, funsor.delta, funsor.gaussian, funsor.joint, funsor.integrate, funsor.constant, funsor.sum_product  # noqa
    reg = sorted("%s:%s" % k for k in R.registered_rules())
    chk.extra_cov = dict(rule_functions_registered=len(reg), rule_functions_fired_and_decided=len(fired),
                         fired=dict(fired.most_common()), never_fired=[r for r in reg if r not in fired][:200],
                         firings_total=sum(o.get("firings", 0) for o in chk.outcomes),
                         firings_outside_sem_fragment=sum(o.get("skipped", 0) for o in chk.outcomes),
                         firings_inconclusive=sum(o.get("inconclusive_firings", 0) for o in chk.outcomes))
    chk.bounds = dict(programs="subsets of the C01/C05/C08 families", schedules=SCHEDS, per_process_cap_per_rule_signature=6, sizes="1-4")
    chk.assumptions = ["meaning of a redex is read from (cls, args) via lang.fromterm + lang.denote (the reflected term is not always constructible)",
                       "carrier of each firing inherited from the generating program", "rules whose arguments fall outside the sem fragment are counted, not decided"]
    chk.floor = 300
    chk.finish(rule="one instance per (program, schedule); inside it one obligation per recorded rule firing (capped per rule signature per process); distinct = printed program + schedule; non-trivial = some firing's obligation not syntactically true",
               trusted_base=["z3 5.1", "symx", "lang.fromterm", "lang.denote", "monitor.rules (dispatch wrapper)"])


if __name__ == "__main__":
    main()
