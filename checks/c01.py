"""C01 — eager evaluation returns the mathematical value of the expression (Engine A)."""
import os
import random
import sys

sys.path.insert(0, os.path.dirname(os.path.dirname(os.path.abspath(__file__))))

from harness.runner import Check  # noqa: E402


def worker(inst):
    from harness.core import check_prog
    from lang.build import build
    theme, prog, twin = inst
    out = check_prog(prog, build, twin=twin, label=theme, int_range_check=False, check_dtype=False,
                     timeout_ms=4000 if os.environ.get('VERIF_TIER', 'quick') == 'quick' else 12000)
    if out["status"] == "declined" and is_core(prog):
        out["core_decline"] = True
    return out


CORE_TAGS = {"leaf", "num", "unary", "binary", "reduce", "subs", "getitem", "getitem_at", "stack", "cat", "lambda", "einsum",
             "outreduce", "reshape", "getslice", "slice"}
CORE_REDUCE = {"add", "mul", "max", "min", "logaddexp", "and_", "or_"}


def is_core(e):
    """the documented core fragment: ground integer-indexed tensor expressions that must complete to a tensor"""
    if not isinstance(e, tuple) or not e or not isinstance(e[0], str):
        return True
    tag = e[0]
    if tag not in CORE_TAGS:
        return False
    if tag == "reduce":
        if e[1] not in CORE_REDUCE:
            return False
    if tag == "outreduce" and e[1] in ("argmax", "argmin"):
        return False
    if tag == "subs":
        for k, v in e[2]:
            if v[0] not in ("num", "leaf", "slice", "var"):
                return False
    if tag == "var":
        return False
    return all(is_core(x) for x in e[1:] if isinstance(x, tuple) and x and isinstance(x[0], str)) and \
        all(is_core(y) for x in e[1:] if isinstance(x, tuple) for y in x if isinstance(y, tuple) and y and isinstance(y[0], str))


def instances(tier, seed):
    from lang import gen
    rng = random.Random(seed)
    out = []
    for theme in gen.THEMES:
        d1 = list(gen.depth1(theme))
        out += [(theme, p, i % 7 == 0) for i, p in enumerate(d1)]
        if tier == "quick":
            d2 = list(gen.depth2(theme, rng, per_inner=2))
            rng.shuffle(d2)
            out += [(theme, p, i % 11 == 0) for i, p in enumerate(d2[:260])]
        else:
            d2 = list(gen.depth2(theme, rng, per_inner=12))
            out += [(theme, p, i % 11 == 0) for i, p in enumerate(d2)]
            out += [(theme, p, False) for p in gen.sample_deep(theme, rng, 400, d=3)]
            out += [(theme, p, False) for p in gen.sample_deep(theme, rng, 200, d=4)]
    out += [("real", p, True) for p in gen.einsum_progs()] + [("real", p, True) for p in gen.independent_progs()] + [("real", p, True) for p in gen.constant_progs()] + [("real", p, True) for p in gen.nondistributive_progs()] + [("real", p, True) for p in gen.matmul_progs()] + [("real", p, True) for p in gen.stack_hetero_progs()] + [("log", p, True) for p in gen.constant_progs("log")]
    return out


def function_worker(inst):
    """funsor.function-wrapped python functions (single and tuple outputs): a SEQUENCE of applications to the same
    tensor with varying Number arguments, eagerly and through variables bound afterwards; every result equals the
    python function applied to the raw cells (the tuple-output wrapper memoises its last call)"""
    from harness.oblig import decide
    _, multi, how, scalars = inst

    def ob(mk):
        import typing
        from collections import OrderedDict
        import numpy as np
        import funsor
        from funsor import Bint, Number, Real, Reals, Tensor, Variable
        from symx.symarray import as_obj
        X = mk.array("x", (2, 3), "real")
        Xc = as_obj(X)
        inputs = OrderedDict(i=Bint[2])
        x = Tensor(X, inputs)

        def raw(xd, a):
            return (xd * a).sum(-1), xd + a
        if multi:
            f = funsor.function(Reals[3], Real, typing.Tuple[Real, Reals[3]])(lambda xd, a: raw(xd, a))
        else:
            f = funsor.function(Reals[3], Real, Reals[3])(lambda xd, a: raw(xd, a)[1])
        pairs = []
        for a in scalars:
            if how == "eager":
                r = f(x, Number(a))
            else:
                xv, av = Variable("xv", Reals[3]), Variable("av", Real)
                lz = f(xv, av)
                r = tuple(t(xv=x, av=a) for t in lz) if multi else lz(xv=x, av=a)
            outs = r if multi else (None, r)
            for i in range(2):
                if multi:
                    s_ = as_obj(outs[0].data)[i]
                    pairs.append(([s_], [sum(Xc[i, k] * a for k in range(3))]))
                t_ = as_obj(outs[1].data)[i]
                pairs.append(([t_[k] for k in range(3)], [Xc[i, k] + a for k in range(3)]))
        return pairs
    out = decide("function|%s" % (inst[1:],), ob, timeout_ms=10000, twin=True)
    out["prog"] = out["label"]
    return out


def direct_worker(inst):
    """terms built directly through their constructors (not through Funsor.reduce / the Prog builder): a Contraction
    whose reduced variables include some that no term mentions; slices of (nested) Lambda terms whose body does or does
    not mention the bound variable"""
    from harness.oblig import decide, Decline
    kind = inst[1]

    def ob(mk):
        from collections import OrderedDict
        import itertools
        import numpy as np
        import funsor.ops as ops
        from funsor import Bint, Real, Tensor, Variable
        from funsor.cnf import Contraction
        from funsor.terms import Lambda
        from harness.core import result_cells
        from lang import cellops as C
        pairs = []
        if kind == "contraction":
            _, _, red, prod, zsize, which = inst
            car = {"add": "real", "logaddexp": "log"}[red]
            F = mk.array("f", (2, 2), car)
            G = mk.array("g", (2,), car)
            f = Tensor(F, OrderedDict(a=Bint[2], b=Bint[2]))
            g = Tensor(G, OrderedDict(a=Bint[2]))
            z, a, b = Variable("z", Bint[zsize]), Variable("a", Bint[2]), Variable("b", Bint[2])
            rv = {"z": [z], "za": [z, a], "zab": [z, a, b]}[which]
            r = Contraction(getattr(ops, red), getattr(ops, prod), frozenset(rv), f, g)
            fa, ga = F.view(np.ndarray), G.view(np.ndarray)
            keep = [n for n in ("a", "b") if n not in {v.name for v in rv}]
            for pt in itertools.product(*(range(2) for _ in keep)):
                env = dict(zip(keep, pt))
                terms = []
                for zz in range(zsize):
                    for aa in ([env["a"]] if "a" in env else range(2)):
                        for bb in ([env["b"]] if "b" in env else range(2)):
                            terms.append(C.BINARY[prod](fa[aa, bb], ga[aa]))
                pairs.append(([result_cells(r, env)[()]], [C.fold(red, terms)]))
            return pairs
        if kind == "unrelated_array":
            # reducing over a variable the argument does not mention whose domain is an ARRAY of bounded integers
            # (size ** num_elements points, not size): add / mul / logaddexp / max (round-6 seeded change)
            _, _, red, size, shape = inst
            from funsor.domains import Array
            car = {"add": "real", "mul": "real", "max": "real", "logaddexp": "log"}[red]
            F = mk.array("f", (2,), car)
            f = Tensor(F, OrderedDict(a=Bint[2]))
            v = Variable("v", Array[size, shape])
            npts = size ** int(np.prod(shape))
            r = f.reduce(getattr(ops, red), frozenset({v}))
            fa = F.view(np.ndarray)
            for aa in range(2):
                pairs.append(([result_cells(r, dict(a=aa))[()]], [C.fold(red, [fa[aa]] * npts)]))
            return pairs
        if kind == "lambda_slice":
            _, _, body_dep, index = inst
            T = mk.array("t", (3, 2), "real")
            Z = mk.array("z", (), "real")
            t = Tensor(T, OrderedDict(j=Bint[3], i=Bint[2]))
            zt = Tensor(Z)
            from funsor.interpretations import lazy
            zv = Variable("z", Real)
            with lazy:
                body = {"none": zv * 2.0, "i": zv + t(j=0), "j": zv + t(i=1), "ij": zv + t}[body_dep]
            lam = Lambda(Variable("j", Bint[3]), Lambda(Variable("i", Bint[2]), body))
            try:
                r = lam[index]
            except (ValueError, NotImplementedError, AssertionError) as e:
                raise Decline("%s: %s" % (type(e).__name__, str(e)[:60]))
            r = r(z=zt)
            ta, zc = T.view(np.ndarray), Z.view(np.ndarray)[()]
            full = np.empty((3, 2), dtype=object)
            for jj in range(3):
                for ii in range(2):
                    full[jj, ii] = {"none": C.BINARY["mul"](zc, 2.0), "i": C.BINARY["add"](zc, ta[0, ii]), "j": C.BINARY["add"](zc, ta[jj, 1]),
                                    "ij": C.BINARY["add"](zc, ta[jj, ii])}[body_dep]
            want = full[index]
            if not isinstance(want, np.ndarray):
                w0 = np.empty((), dtype=object)
                w0[()] = want
                want = w0
            import z3
            shape_ok = tuple(r.output.shape) == want.shape and not r.inputs
            pairs.append((z3.BoolVal(shape_ok) if mk.symbolic else shape_ok, None))
            if not shape_ok:
                return pairs
            cells = result_cells(r, {})
            pairs.append(([cells[ix] for ix in np.ndindex(*want.shape)], [want[ix] for ix in np.ndindex(*want.shape)]))
            return pairs
        raise ValueError(kind)
    out = decide("direct|%s" % (inst[1:],), ob, timeout_ms=10000, twin=True)
    out["prog"] = out["label"]
    return out


def main():
    chk = Check("C01", "model_checking")
    insts = instances(chk.tier, chk.seed)
    chk.map("checks.c01", "worker", insts, chunksize=8)
    finsts = [("function", multi, how, sc) for multi in (False, True) for how in ("eager", "lazy")
              for sc in ((1.0, 3.0, 0.5, 3.0), (2.0, 2.0, -1.0), (0.0, 1.0))]
    chk.map("checks.c01", "function_worker", finsts, chunksize=1, family="function")
    dinsts = [("direct", "contraction", red, prod, zs, which) for red, prod in (("add", "mul"), ("logaddexp", "add")) for zs in (1, 2, 3) for which in ("z", "za", "zab")]
    dinsts += [("direct", "unrelated_array", red, size, shape) for red in ("add", "mul", "logaddexp", "max") for size, shape in ((3, (2,)), (2, (3,)), (2, (2, 2)), (3, ()))]
    dinsts += [("direct", "lambda_slice", dep, idx) for dep in ("none", "i", "j", "ij")
               for idx in ((slice(None), 1), 2, (2, 0), (slice(None), slice(None)), (slice(None), slice(1, None)), (slice(1, 3),), (slice(0, 3, 2), 1), (Ellipsis, 0))]
    chk.map("checks.c01", "direct_worker", dinsts, chunksize=2, family="direct")
    for o in chk.outcomes:
        if o.get("core_decline"):
            chk.notes.append("core-fragment decline: %s :: %s" % (o.get("prog"), o.get("detail")))
    chk.bounds = dict(input_sizes={"i": 2, "j": 3, "k": 2, "l": 1, "m": 4}, depth="1 exhaustive over templates; 2 (seeded subset of wrappers per inner)" if chk.tier == "quick" else "<=2 exhaustive-ish (12 wrappers per inner), seeded depth 3-4",
                      max_paths=64, solver_timeout_ms=20000)
    chk.assumptions = ["float64 modelled as the ordered field of reals (+ -inf in log space); rounding/NaN/+inf outside the claim",
                       "numpy structural ops on object arrays behave as on float arrays (concolic cross-check per instance)",
                       "SV algebra, numpy model table, denote/type_of oracle and z3 are trusted"]
    chk.floor = 200
    chk.finish(rule="Prog expressions generated from per-theme templates (lang/gen.py); distinct = distinct printed expression; non-trivial = the equality obligation does not simplify to true syntactically",
               trusted_base=["z3 5.1", "symx.sv", "symx.symarray (numpy model)", "lang.denote", "lang.prog.type_of"])


if __name__ == "__main__":
    main()
