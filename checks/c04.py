"""C04 — substitution is simultaneous, capture-avoiding application.
Engine A: f(**subs) on symbolic cells vs the oracle with a simultaneous environment update; lazily built Subs
declares exactly the predicted inputs; chained = nested.  Engine B: Slice/Cat substitution index arithmetic for
unbounded ints."""
import itertools
import os
import random
import sys

sys.path.insert(0, os.path.dirname(os.path.dirname(os.path.abspath(__file__))))

from harness.runner import Check  # noqa: E402


def sym_slice(name, start, stop, step, dtype):
    """the REAL SliceMeta.__call__ + Slice.__init__ on symbolic ints"""
    from harness.symterms import raw_terms
    from funsor.terms import Slice
    with raw_terms():
        return Slice(name, start, stop, step, dtype)


def z(x):
    from symx.symint import ival
    return ival(x)


def build_obligation(inst):
    import z3
    from harness.oblig import Decline
    from harness.symterms import PartStub, raw_terms, sym_bint
    kind = inst[0]

    if kind == "slice_number":
        def ob(mk):
            from funsor.terms import Number, Slice
            start, stop, step, dtype = mk.int("start", 0), mk.int("stop", 0), mk.int("step", 1), mk.int("dtype", 0)
            k = mk.int("k", 0)
            if not mk.symbolic:
                try:
                    s = Slice("i", start, stop, step, dtype)
                    if k >= s.inputs["i"].size:
                        return [(True, None)]
                    r = s(i=Number(k, s.inputs["i"].size))
                except (ValueError, AssertionError):
                    return [(True, None)]
                return [(bool(int(r.data) == range(start, min(dtype, max(start, stop)), step)[k] and r.output.size == dtype), None)]
            with raw_terms():
                from funsor.terms import Slice as S2
                try:
                    s = S2("i", start, stop, step, dtype)
                except (ValueError, AssertionError) as e:
                    raise Decline(str(e))
                mk.assume(k < s.inputs["i"].size)
                # run the Number branch of the real eager_subs through a real Number built raw
                n = object.__new__(Number)
                n.data = k
                n.inputs = {}
                n.output = sym_bint(s.inputs["i"].size)
                r = s.eager_subs((("i", n),))
            val = z(r.data)
            return [(z3.And(val == z(s.slice.start) + z(s.slice.step) * z(k), val >= 0, val < z(dtype)), None)]
        return ob

    if kind == "slice_tensor":
        # the index-tensor branch of the real Slice.eager_subs: values start + step * index AND the result keeps the
        # Slice's own output dtype (the range it slices), not the index tensor's (round-6 seeded change)
        def ob(mk):
            from funsor.terms import Slice
            start, stop, step, dtype = mk.int("start", 0), mk.int("stop", 0), mk.int("step", 1), mk.int("dtype", 0)
            k = mk.int("k", 0)
            if not mk.symbolic:
                import numpy as np
                from collections import OrderedDict
                from funsor import Bint, Tensor
                try:
                    s = Slice("i", start, stop, step, dtype)
                    n = s.inputs["i"].size
                    if k >= n:
                        return [(True, None)]
                    r = s(i=Tensor(np.array([k, k]), OrderedDict(b=Bint[2]), n))
                except (ValueError, AssertionError):
                    return [(True, None)]
                return [(bool(int(r.data[0]) == range(start, min(dtype, max(start, stop)), step)[k] and r.dtype == dtype and r.output == s.output), None)]
            with raw_terms():
                from funsor.terms import Slice as S2
                try:
                    s = S2("i", start, stop, step, dtype)
                except (ValueError, AssertionError) as e:
                    raise Decline(str(e))
                mk.assume(k < s.inputs["i"].size)

                class Tensor:       # eager_subs recognises the index tensor by its class NAME and rebuilds one
                    def __init__(self, data, inputs, dtype="real"):
                        self.data, self.inputs, self.dtype = data, inputs, dtype
                r = s.eager_subs((("i", Tensor(k, {}, s.inputs["i"].size)),))
            if not isinstance(r, Tensor):
                return [(z3.BoolVal(False), None)]
            return [(z3.And(z(r.data) == z(s.slice.start) + z(s.slice.step) * z(k), z(r.data) < z(dtype), z(r.dtype) == z(dtype)), None)]
        return ob

    if kind == "slice_slice":
        _, max_step = inst

        def ob(mk):
            from funsor.terms import Slice
            a0, a1, a2, ad = mk.int("s_start", 0), mk.int("s_stop", 0), mk.int("s_step", 1, max_step), mk.int("s_dtype", 0)
            b0, b1, b2 = mk.int("i_start", 0), mk.int("i_stop", 0), mk.int("i_step", 1, max_step)
            if not mk.symbolic:
                try:
                    o = Slice("i", a0, a1, a2, ad)
                    i = Slice("j", b0, b1, b2, o.inputs["i"].size)
                    r = o(i=i)
                except (ValueError, AssertionError):
                    return [(True, None)]
                outer = list(range(a0, min(ad, max(a0, a1)), a2))
                sel = [outer[t] for t in range(b0, min(len(outer), max(b0, b1)), b2)]
                got = list(range(r.slice.start, r.slice.stop, r.slice.step))[: r.inputs["j"].size] if isinstance(r, Slice) else None
                return [(bool(got == sel and r.inputs["j"].size == len(sel)), None)]
            with raw_terms():
                try:
                    outer = Slice("i", a0, a1, a2, ad)
                    osize = outer.inputs["i"].size
                    inner = Slice("j", b0, b1, b2, osize)
                    isize = inner.inputs["j"].size
                    res = outer.eager_subs((("i", inner),))
                except (ValueError, AssertionError) as e:
                    raise Decline(str(e))
            k = z3.Int("k!q")
            rsize = res.inputs["j"].size
            size_ok = z(rsize) == z(isize)
            val_ok = z3.Implies(z3.And(k >= 0, k < z(isize)),
                                z(res.slice.start) + z(res.slice.step) * k ==
                                z(outer.slice.start) + z(outer.slice.step) * (z(inner.slice.start) + z(inner.slice.step) * k))
            return [(z3.And(size_ok, val_ok), None)]
        return ob

    if kind == "cat_slice":
        _, nparts, step = inst

        def ob(mk):
            from funsor.terms import Cat, Slice, Variable
            sizes = [mk.int("p%d" % i, 1) for i in range(nparts)]
            start, stop = mk.int("start", 0), mk.int("stop", 0)
            if not mk.symbolic:
                import numpy as np
                from funsor import Bint, Tensor
                from collections import OrderedDict
                total = sum(sizes)
                parts = []
                off = 0
                for s_ in sizes:
                    parts.append(Tensor(np.arange(off, off + s_, dtype=float), OrderedDict(t=Bint[s_])))
                    off += s_
                import funsor
                from funsor.interpretations import lazy
                try:
                    with lazy:      # keep the Cat lazy so that Cat.eager_subs (the unit under test) runs
                        c = Cat("t", tuple(parts), "t")
                        r = c(t=Slice("u", start, stop, step, total))
                    r = funsor.reinterpret(r)
                except (ValueError, AssertionError, NotImplementedError):
                    return [(True, None)]
                if set(r.inputs) != {"u"}:
                    return [(False, None)]
                exp = list(range(start, min(total, max(start, stop)), step))
                got = [int(v) for v in np.asarray(r.data).ravel()]
                return [(bool(got == [float(e) for e in exp] or got == exp), None)]
            with raw_terms():
                parts = tuple(PartStub("part%d" % i, {"t": sym_bint(s)}) for i, s in enumerate(sizes))
                try:
                    c = Cat("t", parts, "t")
                    total = c.inputs["t"].size
                    sl = Slice("u", start, stop, step, total)
                    res = c.eager_subs((("t", sl),))
                except (ValueError, AssertionError) as e:
                    raise Decline(str(e))
            g = z3.Int("g!q")
            # membership according to the result: some kept part contains g at a selected local index
            offs = []
            off = z3.IntVal(0)
            for s in sizes:
                offs.append(off)
                off = off + z(s)
            sel = []
            for p in res.parts:
                i = int(p.name[4:])
                (kw,) = p.applied
                ps = kw["t"]
                local = g - offs[i]
                pstop = ps.slice.stop
                sel.append(z3.And(local >= z(ps.slice.start), local < z(pstop), local < z(sizes[i]), local >= 0,
                                  (local - z(ps.slice.start)) % step == 0))
            in_res = z3.Or(*sel) if sel else z3.BoolVal(False)
            want = z3.And(g >= z(sl.slice.start), g < z(sl.slice.stop), (g - z(sl.slice.start)) % step == 0)
            count_ok = z(res.inputs["t"].size) == z(sl.inputs["u"].size) if "t" in res.inputs else z3.BoolVal(True)
            return [(z3.And(in_res == want), None)]
        return ob

    if kind == "cat_number":
        _, nparts = inst

        def ob(mk):
            from funsor.terms import Cat, Number
            sizes = [mk.int("p%d" % i, 1) for i in range(nparts)]
            n = mk.int("n", 0)
            if not mk.symbolic:
                return [(True, None)]
            with raw_terms():
                parts = tuple(PartStub("part%d" % i, {"t": sym_bint(s)}) for i, s in enumerate(sizes))
                c = Cat("t", parts, "t")
                mk.assume(n < c.inputs["t"].size)
                num = object.__new__(Number)
                num.data = n
                num.inputs = {}
                num.output = c.inputs["t"]
                try:
                    res = c.eager_subs((("t", num),))
                except AssertionError as e:
                    raise Decline(str(e))
            i = int(res.name[4:])
            (kw,) = res.applied
            local = kw["t"]
            off = z3.IntVal(0)
            for s in sizes[:i]:
                off = off + z(s)
            return [(z3.And(z(local) + off == z(n), z(local) >= 0, z(local) < z(sizes[i])), None)]
        return ob
    raise ValueError(kind)


# ---------------------------------------------------------------------------------------------------
# Engine A: substitution maps
# ---------------------------------------------------------------------------------------------------

def builder_for(mode):
    def builder(prog, leaves):
        import funsor
        from funsor.interpretations import lazy
        from lang.build import build
        assert prog[0] == "subs"
        _, f, pairs = prog
        if mode == "eager":
            return build(prog, leaves)
        if mode == "lazyf":
            with lazy:
                ff = build(f, leaves)
            vals = {k: build(v, leaves) for k, v in pairs}
            return ff(**vals)
        if mode == "lazyall":
            with lazy:
                r = build(prog, leaves)
            return funsor.reinterpret(r)
        if mode == "normalize":       # built under normalize (its Subs rules call eager_subs themselves), then evaluated
            from funsor.interpretations import normalize
            with normalize:
                r = build(prog, leaves)
            return funsor.reinterpret(r)
        if mode == "chained_normalize":
            from funsor.interpretations import normalize
            with normalize:
                ff = build(f, leaves)
                for k, v in pairs:
                    ff = ff(**{k: build(v, leaves)})
            return funsor.reinterpret(ff)
        if mode == "chained_lazy":       # f built lazily, one substitution after the other under lazy (a Subs term survives
            # only where eager_subs declines - Gaussians with non-affine values - so Subs(Subs) fusion is decided under C12)
            with lazy:
                ff = build(f, leaves)
                for k, v in pairs:
                    ff = ff(**{k: build(v, leaves)})
            return funsor.reinterpret(ff)
        if mode == "chained_reflect":    # the first substitution is only RECORDED (reflect): the Subs term survives, and the next
            # substitution, applied eagerly, goes through the Subs-of-Subs fusion rule (eager_subs_subs)
            from funsor.interpretations import reflect
            ff = build(f, leaves)
            (k0, v0), rest = pairs[0], pairs[1:]
            v0b = build(v0, leaves)
            with reflect:
                ff = ff(**{k0: v0b})
            for k, v in rest:
                ff = ff(**{k: build(v, leaves)})
            return funsor.reinterpret(ff)
        if mode == "chained":
            ff = build(f, leaves)
            for k, v in pairs:
                ff = ff(**{k: build(v, leaves)})
            return ff
        raise ValueError(mode)
    return builder


def prog_worker(inst):
    from harness.core import TypeViolation, check_prog, check_result_type, conc_leaves
    from lang.prog import type_of, subs as P_subs
    _, mode, prog = inst
    tmo = 4000 if os.environ.get("VERIF_TIER", "quick") == "quick" else 10000
    if mode in ("chained", "chained_normalize", "chained_lazy", "chained_reflect"):
        # f(a)(b): the oracle is the NESTED substitution
        _, f, pairs = prog
        nested = f
        for k, v in pairs:
            nested = P_subs(nested, ((k, v),))
        b = builder_for(mode)
        out = check_prog(nested, lambda p, leaves: b(prog, leaves), label=mode, int_range_check=False, check_dtype=False, timeout_ms=tmo)
        return out
    out = check_prog(prog, builder_for(mode), label=mode, int_range_check=False, check_dtype=False, timeout_ms=tmo,
                     twin=(hash(str(prog)) % 9 == 0))
    if mode == "lazyall" and out["status"] == "ok":
        import funsor
        from funsor.interpretations import lazy
        from lang.build import build
        rng = random.Random(1)
        try:
            with lazy:
                lz = build(prog, conc_leaves(prog, rng))
            pin, pout = type_of(prog)
            # "exactly these for a lazily built substitution": only when the result IS a Subs term; a substitution of a
            # bound/fresh name (e.g. the Stack's own input) is evaluated even under `lazy` and may then omit inputs of
            # the parts that were not selected (the property's subset rule)
            check_result_type(lz, pin, pout, exact_inputs=isinstance(lz, funsor.terms.Subs), check_dtype=False)
        except TypeViolation as e:
            out.update(status="violation", kind="type", detail="lazily built Subs: " + str(e))
        except Exception:
            pass
    return out


def worker(inst):
    if inst[0] == "prog":
        return prog_worker(inst)
    from harness.oblig import decide
    tier = os.environ.get("VERIF_TIER", "quick")
    return decide(str(inst), build_obligation(inst), timeout_ms=10000 if tier == "quick" else 60000, twin=True)


def subst_maps(f, rng, limit):
    """substitution maps (<= 3 entries) over f's inputs, drawn from the property's value kinds"""
    from lang.gen import SIZES, _leaf_idx
    from lang.prog import binary, num, slice_, type_of, var, leaf
    ins, _ = type_of(f)
    bn = [(k, d[1]) for k, d in ins.items() if d[0] == "bint"]
    single = {}
    for k, n in bn:
        vals = [num(n - 1, n), var("v_" + k, ("bint", n)), _leaf_idx("ix%d" % n, ("k",), n), _leaf_idx("iy%d" % n, ("m", "k"), n),
                slice_("w_" + k, 0, n, 2, n), slice_(k, 0, max(1, n - 1), 1, n), slice_("w", n - 1, n, 2, n), slice_("w_" + k, 1, n, 1, n)]
        for k2, n2 in bn:
            if k2 != k and n2 == n:
                vals.append(var(k2, ("bint", n2)))                           # onto a name f already uses
        # an expression mentioning a substituted name: (index tensor over k itself)
        vals.append(leaf("self%d_%s" % (n, k), ((k, n),), (), ("int", n)))
        if n >= 2:
            vals.append(binary("mod", binary("add", var("v_" + k, ("bint", n)), num(1, 2)), num(n, n + 1)) if False else num(0, n))
        single[k] = vals
    maps = []
    for k, n in bn:
        for v in single[k]:
            maps.append(((k, v),))
    for (k1, n1), (k2, n2) in itertools.permutations(bn, 2):
        for v1 in single[k1][:5]:
            for v2 in single[k2][:5]:
                maps.append(((k1, v1), (k2, v2)))
        if n1 == n2:
            maps.append(((k1, var(k2, ("bint", n2))), (k2, var(k1, ("bint", n1)))))      # swap
            maps.append(((k1, var("d", ("bint", n1))), (k2, var("d", ("bint", n2)))))    # diagonal (repeated variable)
    if bn:
        maps.append(((bn[0][0], num(0, bn[0][1])), ("not_an_input", num(0, 2))))
    if len(bn) >= 3:
        (k1, n1), (k2, n2), (k3, n3) = bn[:3]
        maps.append(((k1, num(0, n1)), (k2, _leaf_idx("ix%d" % n2, ("k",), n2)), (k3, var("v3", ("bint", n3)))))
    # renaming onto a name that is substituted away at the same time (by an index tensor over the renamed name, a
    # number, a slice): always included
    must = []
    for (k1, n1), (k2, n2) in itertools.permutations(bn, 2):
        if n1 == n2:
            must.append(((k1, var(k2, ("bint", n2))), (k2, leaf("self%d_%s" % (n1, k1), ((k1, n1),), (), ("int", n2)))))
            must.append(((k1, var(k2, ("bint", n2))), (k2, num(0, n2))))
            must.append(((k1, var(k2, ("bint", n2))), (k2, slice_("w_" + k2, 0, n2, 2, n2))))
    rng.shuffle(must)
    rng.shuffle(maps)
    return must[:3] + maps[:limit]


def instances(tier, seed):
    from lang import gen
    from lang.prog import subs, type_of
    from lang.gen import well_typed
    rng = random.Random(seed)
    out = [("slice_number",), ("slice_tensor",), ("slice_slice", 4 if tier == "quick" else 8)]
    for nparts in (1, 2, 3):
        out.append(("cat_number", nparts))
        for step in range(1, 5 if tier == "quick" else 9):
            out.append(("cat_slice", nparts, step))
    fs = []
    for theme in ("real", "log", "int"):
        A, E = gen.atoms(theme)
        fs += A[:5] + E[:2]
        d1 = [w for w in gen.depth1(theme) if w[0] in ("binary", "unary", "reduce", "stack", "cat", "lambda", "subs", "getitem", "getitem_at")]
        rng.shuffle(d1)
        fs += d1[:40 if tier == "quick" else 200]
    from lang.prog import getitem_at, getitem, var, leaf
    for theme in ("real", "int"):
        A, E = gen.atoms(theme)
        fs += [getitem_at(E[1], var("gj", ("bint", 2)), 1), getitem_at(E[2], var("gj", ("bint", 3)), 1), getitem(E[1], var("gi", ("bint", 3))),
               getitem(E[4], leaf("ir2", (("i", 2), ("k", 2)), (), ("int", 2)))]
    # substitution of REAL inputs: tensors with batch inputs, numbers, expressions (into Lambda bodies, Stack parts, ...)
    from lang.prog import binary as _b, lambda_ as _lam, num as _num, stack as _stack, unary as _un, var as _var
    zs, zv2 = _var("zs", ("real", ())), _var("zv2", ("real", (2,)))
    wl = leaf("wl", (("i", 2),), (), "real")
    real_fs = [_lam("i", 2, zv2), _lam("i", 2, _b("add", wl, zs)), _lam("l2", 3, _b("mul", zv2, zs)), _stack("st", (wl, zs)), _un("exp", zv2),
               _lam("i", 2, _stack("st", (wl, zs))), _b("sub", leaf("xr", (("j", 3),), (2,), "real"), zv2)]
    real_vals = {"zs": [_num(1.5), leaf("vs", (("k", 2),), (), "real"), leaf("vsi", (("i", 2),), (), "real"), _b("add", leaf("vs", (("k", 2),), (), "real"), _var("q", ("real", ())))],
                 "zv2": [leaf("vv", (), (2,), "real"), leaf("vvk", (("k", 2),), (2,), "real"), leaf("vvi", (("i", 2),), (2,), "real"), _b("mul", leaf("vv", (), (2,), "real"), _num(2.0))]}
    for f in real_fs:
        fin = type_of(f)[0]
        rk = [k for k in ("zs", "zv2") if k in fin]
        for combo in itertools.product(*[real_vals[k] for k in rk]):
            m = tuple(zip(rk, combo))
            p = subs(f, m)
            if not well_typed(p):
                continue
            for md in ("eager", "lazyall", "normalize"):
                out.append(("prog", md, p))
            if any(d[0] == "bint" for d in fin.values()):
                kb = next(k for k, d in fin.items() if d[0] == "bint")
                p2 = subs(f, m + ((kb, _num(0, fin[kb][1])),))
                if well_typed(p2):
                    out.append(("prog", "eager", p2))
    per_f = 8 if tier == "quick" else 20
    for f in fs:
        for m in subst_maps(f, rng, per_f):
            p = subs(f, m)
            if not well_typed(p):
                continue
            mode = rng.choice(["eager", "lazyf", "lazyall", "normalize"]) if tier == "quick" else None
            for md in ([mode] if mode else ["eager", "lazyf", "lazyall", "normalize"]):
                out.append(("prog", md, p))
            if len(m) >= 2 and rng.random() < 0.5:
                out.append(("prog", "chained", p))
            if len(m) >= 2 and rng.random() < 0.4:
                out.append(("prog", "chained_normalize", p))
            if len(m) >= 2 and rng.random() < 0.5:
                out.append(("prog", "chained_lazy", p))
            if len(m) >= 2:
                out.append(("prog", "chained_reflect", p))
    return out


def main():
    chk = Check("C04", "model_checking")
    insts = instances(chk.tier, chk.seed)
    chk.map("checks.c04", "worker", insts, chunksize=6)
    chk.bounds = dict(engine_A="f from atoms and depth-1 expressions of 3 themes; substitution maps <= 3 entries; sizes 1-4",
                      engine_B="Slice/Cat index arithmetic on unbounded ints; step case-split <= 4 (quick) / 8; <= 3 Cat parts")
    chk.assumptions = ["interning (Bint, cons cache) stubbed in Engine B; duck-typed parts record the substitution applied to them"]
    chk.floor = 300
    chk.finish(rule="one instance per (f, substitution map, build mode) / per index-arithmetic lemma; distinct = printed program + mode",
               trusted_base=["z3 5.1", "symx", "lang.denote (simultaneous environment update)", "lang.prog.type_of"])


if __name__ == "__main__":
    main()
