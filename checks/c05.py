"""C05 — bound variables are invisible: no capture, no leakage, renaming-invariant (Engine A)."""
import itertools
import os
import random
import sys

sys.path.insert(0, os.path.dirname(os.path.dirname(os.path.abspath(__file__))))

from harness.runner import Check  # noqa: E402

POOL = ("a", "b", "c")
SCHEDS = ["immediate", "lazy", "normalize", "reflect", "lazy_normalize_eager", "optimizer", "unfold"]


def templates():
    """binder nestings with name placeholders; every placeholder ranges over POOL (all sizes 2, so every
    assignment is well typed unless names clash where funsor's constructors forbid it)"""
    from lang.prog import (binary, cat, independent, lambda_, leaf, num, reduce_, slice_, stack, subs, unary, var)

    def L(name, *names, shape=(), carrier="real"):
        # duplicate names in one leaf are not allowed: caller filters
        return leaf(name, tuple((n, 2) for n in names), shape, carrier)
    T = {}
    T["nested_reduce"] = (4, lambda n: reduce_("add", binary("mul", L("x", n[0], n[1]), reduce_("add", L("y", n[2], n[3]), ((n[2], 2),))), ((n[0], 2),)))
    T["sibling_reduce"] = (3, lambda n: binary("mul", reduce_("add", L("x", n[0], n[1]), ((n[0], 2),)), reduce_("add", L("y", n[0], n[2]), ((n[0], 2),))))
    T["subs_capture_var"] = (3, lambda n: subs(reduce_("add", L("x", n[0], n[1]), ((n[0], 2),)), ((n[1], var(n[2], ("bint", 2))),)))
    T["subs_capture_tensor"] = (3, lambda n: subs(reduce_("add", L("x", n[0], n[1]), ((n[0], 2),)), ((n[1], L("ix", n[2], carrier=("int", 2))),)))
    T["lambda_reduce"] = (3, lambda n: lambda_(n[0], 2, binary("add", L("x", n[0], n[1]), reduce_("add", L("y", n[2], n[0]), ((n[2], 2),)))))
    T["lambda_shadow"] = (3, lambda n: binary("add", lambda_(n[0], 2, reduce_("add", L("x", n[0], n[1]), ((n[0], 2),))), L("y", n[2], shape=(2,))))
    T["lambda_unused"] = (3, lambda n: lambda_(n[0], 2, reduce_("max", L("x", n[1], n[2]), ((n[2], 2),))))
    T["lambda_getitem_subs"] = (3, lambda n: subs(lambda_(n[0], 2, L("x", n[0], n[1])), ((n[1], var(n[2], ("bint", 2))),)))
    T["cat_binder"] = (3, lambda n: binary("add", cat(n[0], (L("x", n[1], n[2]), L("y", n[1], n[2])), n[1]), reduce_("add", L("z", n[1], n[0]), ((n[1], 2),)) if False else num(1.0)))
    T["cat_reduce"] = (3, lambda n: reduce_("add", cat(n[0], (L("x", n[1], n[2]), L("y", n[1], n[2])), n[1]), ((n[2], 2),)))
    T["cat_subs_partname"] = (3, lambda n: subs(cat(n[0], (L("x", n[1], n[2]), L("y", n[1], n[2])), n[1]), ((n[2], var(n[1], ("bint", 2))),)))
    T["stack_reduce"] = (3, lambda n: reduce_("add", stack(n[0], (reduce_("add", L("x", n[1], n[2]), ((n[1], 2),)), L("y", n[2]))), ((n[2], 2),)))
    T["reduce_subs_key"] = (3, lambda n: reduce_("add", subs(L("x", n[0], n[1]), ((n[0], L("ix", n[2], carrier=("int", 2))),)), ((n[2], 2),)))
    T["self_subs"] = (2, lambda n: _self_subs(n))
    T["self_subs2"] = (3, lambda n: _self_subs2(n))
    T["triple_nest"] = (3, lambda n: reduce_("add", binary("mul", L("x", n[0], n[1], carrier="nonneg"), reduce_("max", binary("add", L("y", n[1], n[2]), reduce_("add", L("z", n[2], n[0]), ((n[2], 2),))), ((n[1], 2),))), ((n[0], 2),)))
    T["independent"] = (3, lambda n: _indep(n))
    T["reduce_unrelated_bound"] = (3, lambda n: binary("add", reduce_("add", L("x", n[0]), ((n[1], 2),)), L("y", n[1], n[2])))
    T["double_reduce_subs"] = (3, lambda n: subs(reduce_("add", reduce_("add", binary("mul", L("x", n[0], n[1], n[2]), var("zv", ("real", ()))), ((n[0], 2),)), ((n[1], 2),)),
                                              (("zv", L("y", n[0])),)))
    T["double_reduce_subs2"] = (3, lambda n: subs(reduce_("add", reduce_("add", binary("mul", L("x", n[0], n[1]), var("zv", ("real", ()))), ((n[0], 2),)), ((n[1], 2),)),
                                               (("zv", L("y", n[2])),)))
    T["logaddexp_nest"] = (3, lambda n: reduce_("logaddexp", binary("add", L("x", n[0], n[1], carrier="log"), reduce_("logaddexp", L("y", n[1], n[2], carrier="log"), ((n[1], 2),))), ((n[0], 2),)))
    return T


def _self_subs(n):
    from lang.prog import binary, leaf, reduce_, subs, var
    f = reduce_("add", binary("mul", leaf("x", ((n[0], 2), (n[1], 2))), var("zv", ("real", ()))), ((n[0], 2),))
    return subs(f, (("zv", f),))


def _self_subs2(n):
    from lang.prog import binary, leaf, reduce_, subs, var, unary
    f = reduce_("add", binary("mul", binary("mul", leaf("x", ((n[0], 2),)), var("zv", ("real", ()))), unary("exp", binary("mul", var("wv", ("real", ())), leaf("y", ((n[0], 2), (n[1], 2)))))), ((n[0], 2),))
    return subs(f, (("zv", f),))


def _indep(n):
    from lang.prog import binary, independent, leaf, reduce_, var
    body = binary("add", binary("mul", leaf("x", ((n[0], 2), (n[1], 2))), var("xd", ("real", ()))), reduce_("add", leaf("y", ((n[0], 2), (n[2], 2))), ((n[0], 2),)) if False else binary("mul", leaf("x", ((n[0], 2), (n[1], 2))), var("xd", ("real", ()))))
    return independent(body, "xx", n[0], "xd")


def worker(inst):
    from harness.core import check_prog
    from harness.schedules import SCHEDULES
    sched, tname, prog, twin = inst
    tmo = 4000 if os.environ.get("VERIF_TIER", "quick") == "quick" else 30000
    out = check_prog(prog, SCHEDULES[sched], twin=twin, label="%s|%s" % (sched, tname), int_range_check=False, check_dtype=False, timeout_ms=tmo)
    if out["status"] == "ok":
        # (1) no bound name among the inputs: type_of computes the free inputs lexically; check_result_type (inside
        # check_prog) already rejected any input that is not free in the expression
        pass
    return out


def instances(tier, seed):
    from lang.gen import well_typed
    rng = random.Random(seed)
    out = []
    T = templates()
    n = 0
    for tname, (k, mk) in T.items():
        for names in itertools.product(POOL, repeat=k):
            try:
                p = mk(names)
            except Exception:
                continue
            if not _leaf_names_ok(p) or not well_typed(p):
                continue
            scheds = SCHEDS if tier != "quick" else ["immediate"] + rng.sample(SCHEDS[1:], 3)
            for s in scheds:
                n += 1
                out.append((s, tname, p, n % 17 == 0))
    return out


def _leaf_names_ok(p):
    from harness.known import _nodes
    for nd in _nodes(p):
        if nd[0] == "leaf":
            ns = [k for k, _ in nd[2]]
            if len(set(ns)) != len(ns):
                return False
    return True


def main():
    chk = Check("C05", "model_checking")
    insts = instances(chk.tier, chk.seed)
    chk.map("checks.c05", "worker", insts, chunksize=8)
    chk.bounds = dict(name_pool=list(POOL), templates=sorted(templates()), nesting_depth="<= 3 binders", schedules=SCHEDS)
    chk.assumptions = ["names containing '__BOUND' excluded (as the property states)", "alpha-invariance follows from value == lexically scoped oracle for EVERY name assignment (the oracle is alpha-invariant by construction)",
                       "binders of Integrate/Scatter/Approximate/MarkovProduct/factory-made terms are not in the Prog language: covered only through C10/C11/C14 programs"]
    chk.floor = 300
    chk.finish(rule="every assignment of pool names to the placeholders of every binder-nesting template x schedule; distinct = printed program + schedule",
               trusted_base=["z3 5.1", "symx", "lang.denote (lexical scoping)", "lang.prog.type_of (free inputs)"])


if __name__ == "__main__":
    main()
