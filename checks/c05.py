"""C05 — bound variables are invisible: no capture, no leakage, renaming-invariant (Engine A)."""
import itertools
import os
import random
import sys

sys.path.insert(0, os.path.dirname(os.path.dirname(os.path.abspath(__file__))))

from harness.runner import Check  # noqa: E402

POOL = ("a", "b", "c")
SCHEDS = ["immediate", "lazy", "normalize", "reflect", "lazy_normalize_eager", "optimizer", "unfold"]


def templates():
    """binder nestings with name placeholders; every placeholder ranges over POOL (all sizes 2, so every
    assignment is well typed unless names clash where funsor's constructors forbid it)"""
    from lang.prog import (binary, cat, independent, lambda_, leaf, num, reduce_, slice_, stack, subs, unary, var)

    def L(name, *names, shape=(), carrier="real"):
        # duplicate names in one leaf are not allowed: caller filters
        return leaf(name, tuple((n, 2) for n in names), shape, carrier)
    T = {}
    T["nested_reduce"] = (4, lambda n: reduce_("add", binary("mul", L("x", n[0], n[1]), reduce_("add", L("y", n[2], n[3]), ((n[2], 2),))), ((n[0], 2),)))
    T["sibling_reduce"] = (3, lambda n: binary("mul", reduce_("add", L("x", n[0], n[1]), ((n[0], 2),)), reduce_("add", L("y", n[0], n[2]), ((n[0], 2),))))
    T["subs_capture_var"] = (3, lambda n: subs(reduce_("add", L("x", n[0], n[1]), ((n[0], 2),)), ((n[1], var(n[2], ("bint", 2))),)))
    T["subs_capture_tensor"] = (3, lambda n: subs(reduce_("add", L("x", n[0], n[1]), ((n[0], 2),)), ((n[1], L("ix", n[2], carrier=("int", 2))),)))
    T["lambda_reduce"] = (3, lambda n: lambda_(n[0], 2, binary("add", L("x", n[0], n[1]), reduce_("add", L("y", n[2], n[0]), ((n[2], 2),)))))
    T["lambda_shadow"] = (3, lambda n: binary("add", lambda_(n[0], 2, reduce_("add", L("x", n[0], n[1]), ((n[0], 2),))), L("y", n[2], shape=(2,))))
    T["lambda_unused"] = (3, lambda n: lambda_(n[0], 2, reduce_("max", L("x", n[1], n[2]), ((n[2], 2),))))
    T["lambda_getitem_subs"] = (3, lambda n: subs(lambda_(n[0], 2, L("x", n[0], n[1])), ((n[1], var(n[2], ("bint", 2))),)))
    T["cat_binder"] = (3, lambda n: binary("add", cat(n[0], (L("x", n[1], n[2]), L("y", n[1], n[2])), n[1]), reduce_("add", L("z", n[1], n[0]), ((n[1], 2),)) if False else num(1.0)))
    T["cat_reduce"] = (3, lambda n: reduce_("add", cat(n[0], (L("x", n[1], n[2]), L("y", n[1], n[2])), n[1]), ((n[2], 2),)))
    T["cat_subs_partname"] = (3, lambda n: subs(cat(n[0], (L("x", n[1], n[2]), L("y", n[1], n[2])), n[1]), ((n[2], var(n[1], ("bint", 2))),)))
    T["stack_reduce"] = (3, lambda n: reduce_("add", stack(n[0], (reduce_("add", L("x", n[1], n[2]), ((n[1], 2),)), L("y", n[2]))), ((n[2], 2),)))
    T["reduce_subs_key"] = (3, lambda n: reduce_("add", subs(L("x", n[0], n[1]), ((n[0], L("ix", n[2], carrier=("int", 2))),)), ((n[2], 2),)))
    T["self_subs"] = (2, lambda n: _self_subs(n))
    T["self_subs2"] = (3, lambda n: _self_subs2(n))
    T["triple_nest"] = (3, lambda n: reduce_("add", binary("mul", L("x", n[0], n[1], carrier="nonneg"), reduce_("max", binary("add", L("y", n[1], n[2]), reduce_("add", L("z", n[2], n[0]), ((n[2], 2),))), ((n[1], 2),))), ((n[0], 2),)))
    T["independent"] = (3, lambda n: _indep(n))
    # the fresh real input may be named like the bound diagonal variable or like the bound integer input
    # (funsor's own distributions build Independent(result, "value", name, "value"))
    T["independent_same_diag"] = (3, lambda n: _indep(n, reals_var="xd"))
    T["independent_same_bint"] = (3, lambda n: _indep(n, reals_var=n[0]))
    T["independent_in_sum"] = (3, lambda n: binary("add", _indep(n, reals_var="xd"), reduce_("add", L("w", n[0], n[2]), ((n[0], 2),))))
    T["reduce_unrelated_bound"] = (3, lambda n: binary("add", reduce_("add", L("x", n[0]), ((n[1], 2),)), L("y", n[1], n[2])))
    T["double_reduce_subs"] = (3, lambda n: subs(reduce_("add", reduce_("add", binary("mul", L("x", n[0], n[1], n[2]), var("zv", ("real", ()))), ((n[0], 2),)), ((n[1], 2),)),
                                              (("zv", L("y", n[0])),)))
    T["double_reduce_subs2"] = (3, lambda n: subs(reduce_("add", reduce_("add", binary("mul", L("x", n[0], n[1]), var("zv", ("real", ()))), ((n[0], 2),)), ((n[1], 2),)),
                                               (("zv", L("y", n[2])),)))
    # a bound variable shared by THREE factors (the pairwise eager evaluation must not eliminate it inside one pair)
    T["three_factors_shared"] = (3, lambda n: reduce_("add", binary("mul", binary("mul", L("x", n[0], n[1]), L("y", n[0], n[2])), L("z", n[0])), ((n[0], 2),)))
    T["three_factors_shared_log"] = (3, lambda n: reduce_("logaddexp", binary("add", binary("add", L("x", n[0], n[1], carrier="log"), L("y", n[0], n[2], carrier="log")), L("z", n[0], carrier="log")), ((n[0], 2),)))
    T["four_factors_shared"] = (3, lambda n: reduce_("add", binary("mul", binary("mul", binary("mul", L("x", n[0], n[1]), L("y", n[0], n[2])), L("z", n[0])), L("w", n[0], n[1])), ((n[0], 2), (n[1], 2))))
    T["logaddexp_nest"] = (3, lambda n: reduce_("logaddexp", binary("add", L("x", n[0], n[1], carrier="log"), reduce_("logaddexp", L("y", n[1], n[2], carrier="log"), ((n[1], 2),))), ((n[0], 2),)))
    return T


def _self_subs(n):
    from lang.prog import binary, leaf, reduce_, subs, var
    f = reduce_("add", binary("mul", leaf("x", ((n[0], 2), (n[1], 2))), var("zv", ("real", ()))), ((n[0], 2),))
    return subs(f, (("zv", f),))


def _self_subs2(n):
    from lang.prog import binary, leaf, reduce_, subs, var, unary
    f = reduce_("add", binary("mul", binary("mul", leaf("x", ((n[0], 2),)), var("zv", ("real", ()))), unary("exp", binary("mul", var("wv", ("real", ())), leaf("y", ((n[0], 2), (n[1], 2)))))), ((n[0], 2),))
    return subs(f, (("zv", f),))


def _indep(n, reals_var="xx"):
    from lang.prog import binary, independent, leaf, reduce_, var
    body = binary("add", binary("mul", leaf("x", ((n[0], 2), (n[1], 2))), var("xd", ("real", ()))), reduce_("add", leaf("y", ((n[0], 2), (n[2], 2))), ((n[0], 2),)) if False else binary("mul", leaf("x", ((n[0], 2), (n[1], 2))), var("xd", ("real", ()))))
    return independent(body, reals_var, n[0], "xd")


def random_skeletons(rng, n, k=3, depth=3):
    """random binder nestings over placeholder names P0..P{k-1} (reduce / subs by variable and by index tensor /
    lambda / cat / stack over binary ops and leaves); every assignment of POOL names to the placeholders is an instance"""
    from lang.prog import binary, cat, lambda_, leaf, reduce_, stack, subs, unary, var
    P = ["P%d" % i for i in range(k)]
    counter = [0]

    def fresh(prefix):
        counter[0] += 1
        return "%s%d" % (prefix, counter[0])

    def gen(d):
        kinds = ["leaf"] if d == 0 else ["leaf", "binary", "binary", "reduce", "reduce", "subs_var", "subs_ix", "lambda", "cat", "stack", "unary"]
        kind = rng.choice(kinds)
        if kind == "leaf":
            ns = rng.sample(P, rng.randint(1, min(2, k)))
            return leaf(fresh("x"), tuple((nm, 2) for nm in ns), (), "real")
        if kind == "binary":
            a, b = gen(d - 1), gen(d - 1)
            from harness.known import _nodes
            nomax = not any(nd[0] == "reduce" and nd[1] == "max" for x_ in (a, b) for nd in _nodes(x_))
            return binary(rng.choice(["add", "mul", "sub"]) if nomax else rng.choice(["add", "sub"]), a, b)
        if kind == "unary":
            return unary(rng.choice(["neg", "exp"]), gen(d - 1))
        if kind == "reduce":
            a = gen(d - 1)
            from harness.known import _nodes
            # (max, mul) is a semiring on non-negative data only (see KF-maxmul-signed): max only over sums here
            mulfree = not any(nd[0] == "binary" and nd[1] == "mul" for nd in _nodes(a))
            return reduce_(rng.choice(["add", "add", "max"]) if mulfree else "add", a, ((rng.choice(P), 2),))
        if kind == "subs_var":
            return subs(gen(d - 1), ((rng.choice(P), var(rng.choice(P), ("bint", 2))),))
        if kind == "subs_ix":
            return subs(gen(d - 1), ((rng.choice(P), leaf(fresh("ix"), ((rng.choice(P), 2),), (), ("int", 2))),))
        if kind == "lambda":
            return lambda_(rng.choice(P), 2, gen(d - 1))
        if kind == "cat":
            a = gen(d - 1)
            return cat(rng.choice(P), (a, gen(d - 1)), rng.choice(P))
        return stack(rng.choice(P), (gen(d - 1), gen(d - 1)))
    out = []
    tries = 0
    while len(out) < n and tries < n * 30:
        tries += 1
        counter[0] = 0
        try:
            sk = gen(depth)
        except Exception:
            continue
        if sk[0] == "leaf":
            continue
        out.append(sk)
    return out


def instantiate(sk, names):
    m = {"P%d" % i: nm for i, nm in enumerate(names)}

    def go(x):
        if isinstance(x, str):
            return m.get(x, x)
        if isinstance(x, tuple):
            return tuple(go(y) for y in x)
        return x
    return go(sk)


def binder_extra_worker(inst):
    """binders outside the Prog language, as obligations: Approximate (binds and re-exposes its approx_vars)"""
    from harness.oblig import decide
    _, kind, how, name = inst
    if kind == "integrate":
        return _integrate_worker(inst)
    if kind == "cat_clash":
        return _cat_clash_worker(inst)

    def ob(mk):
        from collections import OrderedDict
        import itertools as it
        import z3
        import funsor
        import funsor.ops as ops
        from funsor import Bint, Tensor
        from funsor.interpretations import lazy, reflect
        from harness.core import result_cells
        from symx.symarray import as_obj
        X = mk.array("x", (3, 2), "real")
        G = mk.array("g", (3,), "real")
        x = Tensor(X, OrderedDict([(name, Bint[3]), ("k", Bint[2])]))
        g = Tensor(G, OrderedDict([(name, Bint[3])]))
        with (reflect if how == "reflect" else lazy):
            a = x.approximate(ops.logaddexp, g, name)
        r = funsor.reinterpret(a)
        ok_inputs = set(a.inputs) == {name, "k"} and set(r.inputs) <= {name, "k"}
        pairs = [(z3.BoolVal(ok_inputs) if mk.symbolic else ok_inputs, None)]
        if not ok_inputs:
            return pairs
        got, exp = [], []
        Xc = as_obj(X)
        for i, k in it.product(range(3), range(2)):
            got.append(result_cells(r, {name: i, "k": k})[()])
            exp.append(Xc[i, k])
        pairs.append((got, exp))
        return pairs
    out = decide("binder|%s|%s|%s" % (kind, how, name), ob, timeout_ms=8000, twin=False)
    out["prog"] = out["label"]
    out["kind"] = out.get("kind") or "binder"
    return out


def _cat_clash_worker(inst):
    """Cat(name, parts, part_name) binds part_name and introduces name: a part that already has an input called `name`
    makes the term ill-formed (Cat.__init__ asserts it).  The eager rules run instead of __init__, so they must reject
    it as well - for every number of parts - or else return the well-scoped value (never a silent diagonal)."""
    from harness.oblig import decide
    _, kind, how, nparts = inst

    def ob(mk):
        from collections import OrderedDict
        import z3
        from funsor import Bint, Tensor
        from funsor.interpretations import lazy
        from funsor.terms import Cat
        X = mk.array("x", (3, 3), "real")
        x = Tensor(X, OrderedDict(i=Bint[3], j=Bint[3]))
        rejected = False
        try:
            if how == "eager":
                r = Cat("j", (x,) * nparts, "i")
            else:
                with lazy:
                    r = Cat("j", (x,) * nparts, "i")
        except AssertionError:
            rejected = True
        ok = rejected or (set(r.inputs) == {"j"} and r.inputs["j"].size == 3 * nparts and False)
        return [(z3.BoolVal(ok) if mk.symbolic else ok, None)]
    out = decide("binder|cat_clash|%s|%d parts" % (how, nparts), ob, timeout_ms=8000, twin=False)
    out["prog"] = out["label"]
    out["kind"] = out.get("kind") or "binder"
    return out


def _integrate_worker(inst):
    """Integrate(log_measure, integrand, reduced_vars) over discrete variables: sum over the reduced variables of
    exp(log_measure) * integrand; built lazily, then evaluated; binder names from the pool incl. a variable only the
    measure mentions and a nested Integrate reusing a binder name"""
    from harness.oblig import decide
    _, kind, how, names = inst

    def ob(mk):
        from collections import OrderedDict
        import itertools as it
        import z3
        import funsor
        import funsor.ops as ops
        from funsor import Bint, Tensor, Variable
        from funsor.integrate import Integrate
        from funsor.interpretations import lazy, reflect
        from harness.core import result_cells
        from lang import cellops as C
        from symx.symarray import as_obj
        i_, j_, k_ = names
        M = mk.array("m", (2, 2), "real")
        F = mk.array("f", (2, 2), "real")
        H = mk.array("h", (2, 2), "real")
        m = Tensor(M, OrderedDict([(i_, Bint[2]), (j_, Bint[2])]))
        f = Tensor(F, OrderedDict([(j_, Bint[2]), (k_, Bint[2])]))
        h = Tensor(H, OrderedDict([(i_, Bint[2]), (k_, Bint[2])]))
        iv, jv = Variable(i_, Bint[2]), Variable(j_, Bint[2])
        ctx = {"reflect": reflect, "lazy": lazy}.get(how)
        def build():
            a = Integrate(m, f, frozenset([iv, jv]))                         # i only in the measure
            b = Integrate(m, Integrate(m, h, frozenset([iv])), frozenset([iv, jv]))    # nested, inner binder reuses i
            return a, b
        if ctx is None:
            a, b = build()
        else:
            with ctx:
                a, b = build()
            a, b = funsor.reinterpret(a), funsor.reinterpret(b)
        Mc, Fc, Hc = as_obj(M), as_obj(F), as_obj(H)
        ex = C.UNARY["exp"]
        pairs = [(z3.BoolVal(set(a.inputs) <= {k_} and set(b.inputs) <= {k_, j_}) if mk.symbolic else (set(a.inputs) <= {k_} and set(b.inputs) <= {k_, j_}), None)]
        if not (set(a.inputs) <= {k_} and set(b.inputs) <= {k_, j_}):
            return pairs
        got, exp = [], []
        for k in range(2):
            got.append(result_cells(a, {k_: k})[()])
            exp.append(C.fold("add", [ex(Mc[i, j]) * Fc[j, k] for i in range(2) for j in range(2)]))
        pairs.append((got, exp))
        got, exp = [], []
        for k in range(2):
            # inner(j, k) = sum_i exp(m[i,j]) h[i,k]  (free in j);  outer = sum_{i,j} exp(m[i,j]) inner(j, k)
            inner = [C.fold("add", [ex(Mc[i, j]) * Hc[i, k] for i in range(2)]) for j in range(2)]
            got.append(result_cells(b, {k_: k})[()])
            exp.append(C.fold("add", [ex(Mc[i, j]) * inner[j] for i in range(2) for j in range(2)]))
        pairs.append((got, exp))
        return pairs
    out = decide("binder|integrate|%s|%s" % (how, ",".join(names)), ob, timeout_ms=8000, twin=False)
    out["prog"] = out["label"]
    return out


def worker(inst):
    from harness.core import check_prog
    from harness.schedules import SCHEDULES
    sched, tname, prog, twin = inst
    tmo = 4000 if os.environ.get("VERIF_TIER", "quick") == "quick" else 30000
    out = check_prog(prog, SCHEDULES[sched], twin=twin, label="%s|%s" % (sched, tname), int_range_check=False, check_dtype=False, timeout_ms=tmo)
    if out["status"] == "ok":
        # (1) no bound name among the inputs: type_of computes the free inputs lexically; check_result_type (inside
        # check_prog) already rejected any input that is not free in the expression
        pass
    return out


def instances(tier, seed):
    from lang.gen import well_typed
    rng = random.Random(seed)
    out = []
    T = templates()
    n = 0
    for tname, (k, mk) in T.items():
        for names in itertools.product(POOL, repeat=k):
            try:
                p = mk(names)
            except Exception:
                continue
            if not _leaf_names_ok(p) or not well_typed(p):
                continue
            scheds = SCHEDS if tier != "quick" else ["immediate"] + rng.sample(SCHEDS[1:], 3)
            for s in scheds:
                n += 1
                out.append((s, tname, p, n % 17 == 0))
    # random binder nestings x every name assignment
    seen = set()
    for i, sk in enumerate(random_skeletons(rng, 12 if tier == "quick" else 400)):
        for names in itertools.product(POOL, repeat=3):
            p = instantiate(sk, names)
            if p in seen or not _leaf_names_ok(p) or not well_typed(p):
                continue
            seen.add(p)
            for s in (SCHEDS if tier != "quick" else rng.sample(SCHEDS, 2)):
                n += 1
                out.append((s, "random%d" % i, p, n % 17 == 0))
    return out


def _leaf_names_ok(p):
    from harness.known import _nodes
    for nd in _nodes(p):
        if nd[0] == "leaf":
            ns = [k for k, _ in nd[2]]
            if len(set(ns)) != len(ns):
                return False
    return True


def main():
    chk = Check("C05", "model_checking")
    insts = instances(chk.tier, chk.seed)
    chk.map("checks.c05", "worker", insts, chunksize=8)
    chk.map("checks.c05", "binder_extra_worker", [("binder", "approximate", how, nm) for how in ("reflect", "lazy") for nm in ("a", "x")], chunksize=1, family="approximate")
    chk.map("checks.c05", "binder_extra_worker", [("binder", "cat_clash", how, n) for how in ("eager", "lazy") for n in (1, 2, 3)], chunksize=1, family="cat_clash")
    chk.map("checks.c05", "binder_extra_worker", [("binder", "integrate", how, nm) for how in ("eager", "reflect", "lazy") for nm in (("a", "b", "c"), ("c", "a", "b"), ("b", "c", "a"))],
            chunksize=1, family="integrate")
    # the time binder of a lazily built MarkovProduct (not in the Prog language): obligation harness of C10
    from checks.c10 import instances as c10_instances
    mb = [i for i in c10_instances(chk.tier, chk.seed) if i[0] == "markov_binder"]
    chk.map("checks.c10", "worker", mb, chunksize=4, family="markov_binder")
    chk.bounds = dict(name_pool=list(POOL), templates=sorted(templates()), random_skeletons="12 | 400 seeded binder nestings of depth 3 over reduce / subs (variable, index tensor) / lambda / cat / stack, each under every name assignment", nesting_depth="<= 3 binders", schedules=SCHEDS)
    chk.assumptions = ["names containing '__BOUND' excluded (as the property states)", "alpha-invariance follows from value == lexically scoped oracle for EVERY name assignment (the oracle is alpha-invariant by construction)",
                       "binders of Integrate/Scatter/Approximate/factory-made terms are not in the Prog language: covered only through C11/C14 programs; the time binder of MarkovProduct is covered by the markov_binder obligations (renaming a free input onto the time variable's name, homogeneous and time-dependent transitions)"]
    chk.floor = 300
    chk.finish(rule="every assignment of pool names to the placeholders of every binder-nesting template x schedule; distinct = printed program + schedule",
               trusted_base=["z3 5.1", "symx", "lang.denote (lexical scoping)", "lang.prog.type_of (free inputs)"])


if __name__ == "__main__":
    main()
