"""C06 — declared types match actual values.
Engine B: the static typing rules (find_domain family, parse_slice, broadcast_shape) run as real bytecode on
UNBOUNDED symbolic sizes / slice parameters against numpy/Python's documented semantics written in z3.
Engine A: the lazily built term declares the predicted type; the eager result honours it (shape, dtype, and every
bounded-integer cell in [0,size) for ALL contents)."""
import itertools
import os
import random
import sys
import types

sys.path.insert(0, os.path.dirname(os.path.dirname(os.path.abspath(__file__))))

from harness.runner import Check  # noqa: E402


# ---------------------------------------------------------------------------------------------------
# Engine B helpers
# ---------------------------------------------------------------------------------------------------

class ArrayStub:
    """non-interning stand-in for a Domain with symbolic dtype/shape (interning hashes its arguments)"""

    def __init__(self, dtype, shape):
        self.dtype, self.shape = dtype, tuple(shape)

    @property
    def size(self):
        return self.dtype


class _ArrayF:
    def __getitem__(self, ds):
        return ArrayStub(*ds)


class _RealsF:
    def __getitem__(self, shape):
        return ArrayStub("real", shape if isinstance(shape, tuple) else (shape,))


def rebound(fn):
    """the real function object with only the interning constructors replaced in its globals"""
    g = dict(fn.__globals__)
    g.update(ArrayType=ArrayStub, Array=_ArrayF(), Reals=_RealsF())
    return types.FunctionType(fn.__code__, g, fn.__name__, fn.__defaults__, fn.__closure__)


def z(x):
    from symx.symint import ival
    return ival(x)


def _If(c, a, b):
    import z3
    return z3.If(c, a, b)


def py_slice_len(n, start, stop, step, symbolic):
    """len(range(n)[start:stop:step]) per CPython's PySlice_AdjustIndices; start/stop may be None"""
    if not symbolic:
        return len(range(n)[slice(start, stop, step)])
    import z3
    from symx.symint import SymInt
    n_, st = z(n), z(step)
    pos = st > 0
    if start is None:
        s0 = z3.If(pos, z3.IntVal(0), n_ - 1)
    else:
        s = z(start)
        s = z3.If(s < 0, s + n_, s)
        s0 = z3.If(pos, z3.If(s < 0, 0, z3.If(s > n_, n_, s)), z3.If(s < 0, -1, z3.If(s >= n_, n_ - 1, s)))
    if stop is None:
        e0 = z3.If(pos, n_, z3.IntVal(-1))
    else:
        e = z(stop)
        e = z3.If(e < 0, e + n_, e)
        e0 = z3.If(pos, z3.If(e < 0, 0, z3.If(e > n_, n_, e)), z3.If(e < 0, -1, z3.If(e >= n_, n_ - 1, e)))
    ln = z3.If(pos, z3.If(s0 < e0, (e0 - s0 - 1) / st + 1, 0), z3.If(e0 < s0, (s0 - e0 - 1) / (-st) + 1, 0))
    return SymInt(ln)


def build_obligation(inst):
    import numpy as np
    import funsor.ops as ops
    import funsor.domains as D
    from funsor.domains import find_domain
    from harness.oblig import Decline
    kind = inst[0]

    if kind == "range":
        # value range declared for op(Bint[a], Bint[b]) vs the values the op actually takes
        _, opn, a_fix = inst
        op = getattr(ops, opn)
        fn = rebound(find_domain.dispatch(type(op)))
        pyf = {"add": lambda x, y: x + y, "mul": lambda x, y: x * y, "max": lambda x, y: max(x, y) if not hasattr(x, "e") and not hasattr(y, "e") else None,
               "min": None, "floordiv": lambda x, y: x // y, "mod": lambda x, y: x % y, "pow": None}

        def ob(mk):
            import z3
            from symx.symint import SymInt
            a = mk.int("a", 1, None) if a_fix is None else a_fix
            b = mk.int("b", 1, None)
            x = mk.int("x", 0, None)
            y = mk.int("y", 1 if opn in ("floordiv", "mod") else 0, None)
            mk.assume(x < a)
            mk.assume(y < b)
            out = fn(op, ArrayStub(a, ()), ArrayStub(b, ()))
            size = out.dtype
            if mk.symbolic:
                xe, ye = z(x), z(y)
                if opn == "add":
                    v = xe + ye
                elif opn == "mul":
                    v = xe * ye
                elif opn == "max":
                    v = z3.If(xe >= ye, xe, ye)
                elif opn == "min":
                    v = z3.If(xe <= ye, xe, ye)
                elif opn == "floordiv":
                    v = xe / ye
                elif opn == "mod":
                    v = xe % ye
                elif opn in ("and_", "or_", "xor", "eq", "lt", "le", "ne", "ge", "gt"):
                    v = None
                else:
                    raise NotImplementedError(opn)
                if v is None:
                    return [(z3.And(z(size) == 2), None)]
                return [(z3.And(v >= 0, v < z(size)), None)]
            # concrete replay on the REAL un-stubbed rule and the real op on arrays
            from funsor.domains import Bint
            real = find_domain(op, Bint[a], Bint[b])
            val = op(np.array(x), np.array(y))
            return [(bool(0 <= int(val) < real.size), None)]
        return ob

    if kind == "getslice":
        # _find_domain_getslice + parse_slice vs numpy basic indexing, sizes and slice parameters unbounded
        _, rank, pattern = inst

        def ob(mk):
            from symx.symint import SymInt
            sizes = [mk.int("n%d" % i, 0, None) for i in range(rank)]
            index = []
            consumed = 0
            for j, part in enumerate(pattern):
                if part == "int":
                    index.append(0 if mk.symbolic else 0)   # concrete int index (removes the dim)
                    consumed += 1
                elif part == "none":
                    index.append(None)
                elif part == "ellipsis":
                    index.append(Ellipsis)
                else:
                    st, sp, se = part   # each in {"n": None, "s": symbolic}
                    a = mk.int("start%d" % j) if st == "s" else None
                    b = mk.int("stop%d" % j) if sp == "s" else None
                    c = mk.int("step%d" % j) if se == "s" else None
                    if c is not None:
                        mk.assume(c != 0)
                        if se == "s" and inst[-1] == "pos":
                            pass
                    index.append(slice(a, b, c))
                    consumed += 1
            index = tuple(index)
            if mk.symbolic:
                # dims removed by an int index must be non-empty for index 0 to be valid
                op = ops.getslice(index) if False else None
            fn = rebound(D._find_domain_getslice)
            g = fn.__globals__

            class _Op:
                defaults = {"index": index}
            # ints index position 0 -> the dim must have size >= 1
            dom = ArrayStub("real", tuple(sizes))
            try:
                out = fn(_Op, dom)
            except (ValueError, IndexError, AssertionError) as e:
                raise Decline(str(e))
            got = list(out.shape)
            # oracle: numpy basic indexing semantics
            exp = []
            left = []
            right = []
            seen_ell = False
            for part in index:
                if part is Ellipsis:
                    seen_ell = True
                    continue
                (right if seen_ell else left).append(part)
            nl = sum(1 for p in left if p is not None)
            nr = sum(1 for p in right if p is not None)
            if nl + nr > rank:
                raise Decline("too many indices")
            mid = rank - nl - nr
            dims = iter(range(rank))
            seq = list(left) + [slice(None)] * mid + list(right)
            for part in seq:
                if part is None:
                    exp.append(1)
                    continue
                d = next(dims)
                if isinstance(part, int) and not isinstance(part, bool):
                    mk.assume(sizes[d] >= 1)
                    continue
                exp.append(py_slice_len(sizes[d], part.start, part.stop, 1 if part.step is None else part.step, mk.symbolic))
            if not mk.symbolic:
                real = np.empty(tuple(sizes), dtype=np.int8)[index].shape
                from funsor.domains import Reals
                decl = find_domain(ops.getslice(index) if False else ops.GetsliceOp(index), Reals[tuple(sizes)]).shape
                return [(bool(tuple(decl) == tuple(real)), None)]
            if len(got) != len(exp):
                return [(False if not mk.symbolic else __import__("z3").BoolVal(False), None)]
            return [(g_, e_) for g_, e_ in zip(got, exp)]
        return ob

    if kind == "broadcast":
        _, ranks = inst

        def ob(mk):
            import z3
            from funsor.util import broadcast_shape
            shapes = [tuple(mk.int("s%d_%d" % (i, j), 0, None) for j in range(r)) for i, r in enumerate(ranks)]
            if not mk.symbolic:
                try:
                    real = np.broadcast_shapes(*shapes)
                except ValueError:
                    real = None
                try:
                    got = broadcast_shape(*shapes)
                except ValueError:
                    got = None
                return [(bool(got == real), None)]
            try:
                got = broadcast_shape(*shapes)
                raised = False
            except ValueError:
                got, raised = None, True
            # oracle (numpy rule), right aligned
            R = max(ranks) if ranks else 0
            ok = []
            exp = []
            for pos in range(1, R + 1):
                col = [z(s[-pos]) for s in shapes if len(s) >= pos]
                m = col[0]
                for c in col[1:]:
                    m = z3.If(m == 1, c, m)
                ok += [z3.Or(c == 1, c == m) for c in col]
                exp.append(m)
            exp = list(reversed(exp))
            compatible = z3.And(*ok) if ok else z3.BoolVal(True)
            if raised:
                return [(z3.Not(compatible), None)]
            if len(got) != len(exp):
                return [(z3.BoolVal(False), None)]
            return [(z3.And(compatible, *[z(g_) == e_ for g_, e_ in zip(got, exp)]), None)]
        return ob

    if kind == "reduction":
        _, opn, rank, axis, keepdims = inst

        def ob(mk):
            import z3
            sizes = [mk.int("n%d" % i, 1, None) for i in range(rank)]
            op = getattr(ops, opn)(axis, keepdims) if False else type(getattr(ops, opn))(axis, keepdims)
            fn = rebound(D._find_domain_reduction)
            dom = ArrayStub(2 if opn in ("all", "any") else "real", tuple(sizes))
            out = fn(op, dom)
            axes = tuple(range(rank)) if axis is None else (axis % rank,) if isinstance(axis, int) else tuple(a % rank for a in axis)
            if keepdims:
                exp = [1 if i in axes else sizes[i] for i in range(rank)]
            else:
                exp = [sizes[i] for i in range(rank) if i not in axes]
            if not mk.symbolic:
                arr = np.zeros(tuple(sizes), dtype=bool if opn in ("all", "any") else float)
                real = getattr(ops, opn)(arr, axis, keepdims).shape
                from funsor.domains import Array
                decl = find_domain(op, Array[dom.dtype, tuple(sizes)]).shape
                return [(bool(tuple(real) == tuple(decl)), None)]
            got = list(out.shape)
            if len(got) != len(exp):
                return [(z3.BoolVal(False), None)]
            return [(z3.And(*[z(a) == z(b) for a, b in zip(got, exp)]) if got else z3.BoolVal(True), None)]
        return ob

    if kind == "matmul":
        _, r1, r2 = inst

        def ob(mk):
            import z3
            s1 = tuple(mk.int("a%d" % i, 1, None) for i in range(r1))
            s2 = tuple(mk.int("b%d" % i, 1, None) for i in range(r2))
            if not mk.symbolic:
                try:
                    real = np.matmul(np.zeros(s1), np.zeros(s2)).shape
                except ValueError:
                    return [(True, None)]
                from funsor.domains import Reals
                try:
                    decl = find_domain(ops.matmul, Reals[s1], Reals[s2]).shape
                except (AssertionError, ValueError):
                    return [(True, None)]
                return [(bool(tuple(decl) == tuple(real)), None)]
            fn = rebound(D._find_domain_matmul)
            try:
                out = fn(ops.matmul, ArrayStub("real", s1), ArrayStub("real", s2))
            except (AssertionError, ValueError) as e:
                raise Decline(str(e))
            # oracle: numpy matmul shape semantics
            a, b = [z(x) for x in s1], [z(x) for x in s2]
            if r1 == 1 and r2 == 1:
                exp = []
            elif r2 == 1:
                exp = a[:-1]
            elif r1 == 1:
                exp = b[:-2] + b[-1:]
            else:
                ba, bb = a[:-2], b[:-2]
                R = max(len(ba), len(bb))
                ba = [z3.IntVal(1)] * (R - len(ba)) + ba
                bb = [z3.IntVal(1)] * (R - len(bb)) + bb
                for x, y in zip(ba, bb):
                    mk.assume(z3.Or(x == y, x == 1, y == 1))
                exp = [z3.If(x == 1, y, x) for x, y in zip(ba, bb)] + [a[-2], b[-1]]
            got = [z(g_) for g_ in out.shape]
            if len(got) != len(exp):
                return [(z3.BoolVal(False), None)]
            return [(z3.And(*[g_ == e_ for g_, e_ in zip(got, exp)]) if got else z3.BoolVal(True), None)]
        return ob

    if kind in ("opstack", "opcat"):
        # find_domain of ops.stack(parts, dim) / ops.cat(parts, axis): declared shape == numpy's, for unbounded sizes
        _, rank, nparts, dim = inst

        def ob(mk):
            import z3
            if kind == "opstack":
                shp = tuple(mk.int("a%d" % i, 1, None) for i in range(rank))
                shapes = [shp] * nparts
            else:
                base = [mk.int("a%d" % i, 1, None) for i in range(rank)]
                shapes = []
                for p_ in range(nparts):
                    sh = list(base)
                    sh[dim % rank] = mk.int("c%d" % p_, 1, None)
                    shapes.append(tuple(sh))
            op = ops.stack if kind == "opstack" else ops.cat
            opi = type(op)(dim) if kind == "opstack" else type(op)(dim)
            if not mk.symbolic:
                from funsor.domains import Reals
                arrs = [np.zeros(sh) for sh in shapes]
                real = (np.stack(arrs, dim) if kind == "opstack" else np.concatenate(arrs, dim)).shape
                try:
                    decl = find_domain(opi, tuple(Reals[sh] for sh in shapes)).shape
                except (AssertionError, ValueError):
                    return [(True, None)]
                return [(bool(tuple(decl) == tuple(real)), None)]
            fn = rebound(D._find_domain_stack if kind == "opstack" else D._find_domain_cat)
            try:
                out = fn(opi, tuple(ArrayStub("real", sh) for sh in shapes))
            except (AssertionError, ValueError) as e:
                raise Decline(str(e))
            if kind == "opstack":
                d = dim % (rank + 1)
                exp = [z(x) for x in shapes[0][:d]] + [z3.IntVal(nparts)] + [z(x) for x in shapes[0][d:]]
            else:
                d = dim % rank
                exp = [z(x) for x in shapes[0]]
                exp[d] = sum((z(sh[d]) for sh in shapes[1:]), z(shapes[0][d]))
            got = [z(g_) for g_ in out.shape]
            if len(got) != len(exp):
                return [(z3.BoolVal(False), None)]
            return [(z3.And(*[g_ == e_ for g_, e_ in zip(got, exp)]) if got else z3.BoolVal(True), None)]
        return ob

    if kind == "getslice_pair":
        # two getslice terms alive at the same time (op instances are cached by a key derived from the index): the
        # declared shape of each must still be numpy's.  Concrete structural check (no symbolic part).
        _, ia, ib = inst

        def ob(mk):
            import z3
            from funsor import Reals, Variable
            from funsor.interpretations import lazy
            x = Variable("x", Reals[4, 4, 4])
            with lazy:
                ta = x[ia]
                tb = x[ib]
            ok = True
            for t, idx in ((ta, ia), (tb, ib)):
                want = np.empty((4, 4, 4), dtype=np.int8)[idx].shape
                if tuple(t.output.shape) != tuple(want):
                    ok = False
            return [(z3.BoolVal(ok) if mk.symbolic else ok, None)]
        return ob

    if kind == "slice_size":
        # Slice(name, start, stop, step, dtype): declared input size vs the number of selected elements
        def ob(mk):
            import z3
            from funsor.terms import Slice, SliceMeta
            start = mk.int("start", 0, None)
            stop = mk.int("stop", None, None)
            step = mk.int("step", 1, None)
            dtype = mk.int("dtype", 0, None)
            if not mk.symbolic:
                try:
                    s = Slice("i", start, stop, step, dtype)
                except (ValueError, AssertionError):
                    return [(True, None)]
                n = s.inputs["i"].size
                vals = [start + step * t for t in range(n)]
                ok = all(v < dtype for v in vals) and n == len(range(start, min(dtype, max(start, stop)), step))
                return [(bool(ok), None)]
            from checks.c04 import sym_slice
            try:
                sl = sym_slice("i", start, stop, step, dtype)
            except (ValueError, AssertionError) as e:
                raise Decline(str(e))
            n = sl.inputs["i"].size
            st2 = z3.If(z(dtype) < z3.If(z(start) > z(stop), z(start), z(stop)), z(dtype), z3.If(z(start) > z(stop), z(start), z(stop)))
            exp = z3.If(st2 > z(start), (st2 - z(start) - 1) / z(step) + 1, 0)
            return [(z(n) == exp, None)]
        return ob
    raise ValueError(kind)


def worker(inst):
    tier = os.environ.get("VERIF_TIER", "quick")
    if inst[0] == "prog":
        return prog_worker(inst)
    from harness.oblig import decide
    ob = build_obligation(inst)
    known = ()
    if inst[0] == "range" and inst[1] == "floordiv":
        import z3
        known = [("KF-floordiv-bound", lambda sym: sym.made["y"][2].e < sym.made["b"][2].e - 1)]
    if inst[0] == "getslice":
        import z3

        def neg_step(sym):
            steps = [v[2].e < 0 for k, v in sym.made.items() if k.startswith("step")]
            return z3.Or(*steps) if steps else z3.BoolVal(False)
        known = [("KF-getslice-negative-step", neg_step)]
    return decide(str(inst), ob, timeout_ms=10000 if tier == "quick" else 60000, twin=True, known=known, max_paths=2048)


def prog_worker(inst):
    """Engine A: declared type of the lazily built term == predicted; eager result honours it for all contents"""
    from harness.core import TypeViolation, check_prog, check_result_type, conc_leaves
    from lang.build import build
    from lang.prog import type_of, IllTyped, show
    import funsor
    _, theme, prog = inst
    out = check_prog(prog, build, label=theme, int_range_check=True, check_dtype=True,
                     timeout_ms=4000 if os.environ.get("VERIF_TIER", "quick") == "quick" else 30000)
    if out["status"] not in ("ok", "declined"):
        return out
    # lazily built term: exactly the predicted inputs and output
    try:
        pin, pout = type_of(prog)
    except IllTyped:
        return out
    rng = random.Random(1)
    try:
        with funsor.interpretations.lazy:
            lz = build(prog, conc_leaves(prog, rng))
    except Exception as e:  # noqa
        out.setdefault("notes", "lazy build declined: %s" % type(e).__name__)
        return out
    try:
        # exactness is demanded of terms that stayed lazy; a substitution for a Stack's own (fresh) input is evaluated
        # even under `lazy` and then omits the inputs of the parts that were not selected (the evaluated-term clause)
        from funsor.terms import Funsor as _F
        from funsor.tensor import Tensor as _T
        stayed_lazy = not isinstance(lz, (_T, funsor.terms.Number)) and not (prog[0] == "subs" and not isinstance(lz, funsor.terms.Subs))
        check_result_type(lz, pin, pout, exact_inputs=stayed_lazy)
    except TypeViolation as e:
        out.update(status="violation", kind="type", detail="lazy term: " + str(e))
    return out


def instances(tier, seed):
    out = []
    for opn in ("add", "mul", "max", "min", "floordiv", "mod", "and_", "or_", "xor", "eq", "lt"):
        if opn == "mul":
            for a in range(1, 9 if tier == "quick" else 17):    # keep each query linear
                out.append(("range", opn, a))
        else:
            out.append(("range", opn, None))
    S = [("n", "n", "n"), ("s", "n", "n"), ("n", "s", "n"), ("s", "s", "n"), ("s", "s", "s"), ("n", "n", "s"), ("s", "n", "s"), ("n", "s", "s")]
    for rank in (1, 2) if tier == "quick" else (1, 2, 3):
        pats = []
        for sl in S:
            pats.append((sl,))
            pats.append(("ellipsis", sl))
            pats.append((sl, "none"))
            pats.append(("none", sl))
            if rank >= 2:
                pats.append(("int", sl))
                pats.append((sl, "int"))
                pats.append((sl, "ellipsis", "int"))
        if rank >= 2:
            for s1, s2 in itertools.product(S[:5], repeat=2) if tier != "quick" else [(S[3], S[3]), (S[1], S[2]), (S[5], S[3])]:
                pats.append((s1, s2))
        pats += [("int",), ("none",), ("ellipsis",), ("ellipsis", "none"), ("int", "ellipsis")]
        for p in pats:
            out.append(("getslice", rank, p))
    for ranks in [(1, 1), (2, 1), (1, 2), (2, 2), (0, 2), (3, 2), (1, 1, 1), (2, 1, 2)] + ([(3, 3), (3, 1, 2)] if tier != "quick" else []):
        out.append(("broadcast", ranks))
    for opn in ("sum", "amax", "logsumexp", "all", "mean"):
        for rank in (1, 2, 3):
            for axis in [None] + list(range(-rank, rank)) + ([(0, 1), (0, -1), (-1,), (-2, -1)] if rank >= 2 else [(-1,)]):
                for kd in (False, True):
                    out.append(("reduction", opn, rank, axis, kd))
    for r1 in (1, 2, 3):
        for r2 in (1, 2, 3):
            out.append(("matmul", r1, r2))
    for rank in (0, 1, 2, 3):
        for nparts in (1, 2, 3):
            for dim in range(-rank - 1, rank + 1):
                out.append(("opstack", rank, nparts, dim))
            if rank >= 1:
                for dim in range(-rank, rank):
                    out.append(("opcat", rank, nparts, dim))
    out.append(("slice_size",))
    idxs = [slice(1, 3), (1, 3, None), (slice(None), None), (None, slice(None)), slice(None), (None, None, None), (0, slice(None)), (0, None, None),
            (slice(0, 2), 1), (0, 2, 1), (Ellipsis, 0), (slice(None), slice(None), 0), 2, (2,), (slice(2, None, None),)]
    for ia in idxs:
        for ib in idxs:
            if ia is not ib:
                out.append(("getslice_pair", ia, ib))
    # Engine A programs (int and bool themes carry the range obligations; all themes carry the declared types)
    from lang import gen
    rng = random.Random(seed)
    for theme in ("int", "bool", "real", "log"):
        d1 = list(gen.depth1(theme))
        if tier == "quick":
            rng.shuffle(d1)
            d1 = d1[:400 if theme in ("int", "bool") else 150]
        out += [("prog", theme, p) for p in d1]
        if tier != "quick":
            d2 = list(gen.depth2(theme, rng, per_inner=3))
            out += [("prog", theme, p) for p in d2]
    out += [("prog", "real", p) for p in gen.einsum_progs()]
    return out


def main():
    chk = Check("C06", "model_checking")
    insts = instances(chk.tier, chk.seed)
    chk.map("checks.c06", "worker", insts, chunksize=4)
    chk.bounds = dict(engine_B="sizes, value bounds and slice parameters are unbounded mathematical integers; rank <= 2 (quick) / 3; mul case-split a <= 8|16",
                      engine_A="C01 depth-1 programs (seeded subset in quick), sizes 1-4")
    chk.assumptions = ["interning constructors (Array/Reals/ArrayType) replaced by non-interning stubs in the rule's globals; everything else is the real bytecode",
                       "numpy/Python shape semantics written from the documentation (validated by the concrete replay of every model)"]
    chk.floor = 300
    chk.finish(rule="Engine B: one obligation per (rule, structure) with symbolic ints; Engine A: one per generated program; distinct = distinct descriptor/printed program; non-trivial = goal not syntactically true",
               trusted_base=["z3 5.1 (LIA/NIA)", "symx.symint", "symx.sv/symarray", "lang.prog.type_of", "reference shape semantics in checks/c06.py"])


if __name__ == "__main__":
    main()
