"""C16 — pattern dispatch picks a most specific rule; the parametric subtype relation is a preorder that agrees
with a reference definition (Engine B: symbolic relation on leaf types, real deep_issubclass code)."""
import itertools
import os
import sys
import typing

sys.path.insert(0, os.path.dirname(os.path.dirname(os.path.abspath(__file__))))

from harness.runner import Check  # noqa: E402

NATOMS = 4
_STATE = {}


def _setup():
    """atoms, symbolic leaf relation, interception of the module-level deep_issubclass for leaf pairs only"""
    if _STATE:
        return _STATE
    import z3
    import funsor.typing as FT
    from funsor.typing import GenericTypeMeta
    from symx.symint import SymBool
    atoms = [type("A%d" % i, (), {}) for i in range(NATOMS)]
    aid = {a: i for i, a in enumerate(atoms)}
    R = [[z3.Bool("R_%d_%d" % (i, j)) for j in range(NATOMS)] for i in range(NATOMS)]
    axioms = [R[i][i] for i in range(NATOMS)]
    for i, j, k in itertools.product(range(NATOMS), repeat=3):
        axioms.append(z3.Implies(z3.And(R[i][j], R[j][k]), R[i][k]))
    orig = FT.deep_issubclass

    def sym_issub(subcls, cls):
        if subcls in aid and cls in aid:
            return SymBool(R[aid[subcls]][aid[cls]])
        if subcls in aid and cls is object:
            return True
        return orig.__wrapped__(subcls, cls)      # bypass the lru_cache; recursion looks up the patched global
    FT.deep_issubclass = sym_issub

    class G(metaclass=GenericTypeMeta):
        pass

    class H(G):
        pass
    _STATE.update(atoms=atoms, aid=aid, R=R, axioms=axioms, G=G, H=H, FT=FT)
    return _STATE


SHAPES = {
    "a": lambda S, a, b: a,
    "Tuple[a,b]": lambda S, a, b: typing.Tuple[a, b],
    "Tuple[a,...]": lambda S, a, b: typing.Tuple[a, ...],
    "Tuple[a]": lambda S, a, b: typing.Tuple[a],
    "Tuple": lambda S, a, b: typing.Tuple,
    "Union[a,b]": lambda S, a, b: typing.Union[a, b],
    "FrozenSet[a]": lambda S, a, b: typing.FrozenSet[a],
    "FrozenSet": lambda S, a, b: typing.FrozenSet,
    "Any": lambda S, a, b: typing.Any,
    "G[a,b]": lambda S, a, b: S["G"][a, b],
    "H[a,b]": lambda S, a, b: S["H"][a, b],
    "G": lambda S, a, b: S["G"],
    "Tuple[Union[a,b],a]": lambda S, a, b: typing.Tuple[typing.Union[a, b], a],
    "Tuple[Tuple[a,...],b]": lambda S, a, b: typing.Tuple[typing.Tuple[a, ...], b],
    "FrozenSet[Tuple[a,b]]": lambda S, a, b: typing.FrozenSet[typing.Tuple[a, b]],
    "G[Tuple[a],b]": lambda S, a, b: S["G"][typing.Tuple[a], b],
    "Tuple[a,b,a]": lambda S, a, b: typing.Tuple[a, b, a],
    "Tuple[Tuple[a,b],...]": lambda S, a, b: typing.Tuple[typing.Tuple[a, b], ...],
    "FrozenSet[Union[a,b]]": lambda S, a, b: typing.FrozenSet[typing.Union[a, b]],
    "Union[Tuple[a],FrozenSet[b]]": lambda S, a, b: typing.Union[typing.Tuple[a], typing.FrozenSet[b]],
    "G[H[a,b],a]": lambda S, a, b: S["G"][S["H"][a, b], a],
    "H[a,Tuple[b,...]]": lambda S, a, b: S["H"][a, typing.Tuple[b, ...]],
    "Tuple[Any,a]": lambda S, a, b: typing.Tuple[typing.Any, a],
    "H": lambda S, a, b: S["H"],
    # unions whose members share their origin, and Any as a parameter of a parametrised class
    "Union[G[a,b],G[b,a]]": lambda S, a, b: typing.Union[S["G"][a, b], S["G"][b, a]],
    "Union[G[a,a],G]": lambda S, a, b: typing.Union[S["G"][a, a], S["G"]],
    "Union[H[a,b],G[b,b]]": lambda S, a, b: typing.Union[S["H"][a, b], S["G"][b, b]],
    "G[Any,a]": lambda S, a, b: S["G"][typing.Any, a],
    "G[a,Any]": lambda S, a, b: S["G"][a, typing.Any],
}
QUICK_SHAPES = ["a", "Tuple[a,b]", "Tuple[a,...]", "Tuple[a]", "Tuple", "Union[a,b]", "FrozenSet[a]", "FrozenSet", "Any", "G[a,b]", "H[a,b]", "G",
                "Tuple[Any,a]", "Union[Tuple[a],FrozenSet[b]]", "Tuple[a,b,a]", "Union[G[a,b],G[b,a]]", "G[Any,a]"]


def formula(S, sub, sup):
    """path-sum formula of the REAL deep_issubclass(sub, sup) over the symbolic leaf relation"""
    import z3
    from symx import engine
    FT = S["FT"]

    def run():
        return bool(issubclass(FT.typing_wrap(sub), FT.typing_wrap(sup)))
    paths = engine.explore(run, max_paths=512)
    yes = []
    for pr in paths:
        if pr.exc is not None:
            if isinstance(pr.exc, TypeError):
                continue        # the real code raises for this combination on this path: treated as "not a subtype"
            raise pr.exc
        if pr.value:
            yes.append(z3.And(*pr.ctx.pc) if pr.ctx.pc else z3.BoolVal(True))
    return z3.Or(*yes) if yes else z3.BoolVal(False), len(paths)


def ref_sub(S, sub, sup):
    """reference definition of the structured subtype relation (covariant tuples and frozensets, variadic rules,
    union any/all, Any top), as a z3 formula over the leaf relation R"""
    import z3
    aid, R, G, H = S["aid"], S["R"], S["G"], S["H"]
    T, F = z3.BoolVal(True), z3.BoolVal(False)
    go = typing.get_origin
    ga = typing.get_args
    if go(sub) is typing.Union:
        return z3.And(*[ref_sub(S, x, sup) for x in ga(sub)])
    if sub is typing.Any:
        return T if sup is typing.Any else F
    if sup is typing.Any:
        return T
    if go(sup) is typing.Union:
        return z3.Or(*[ref_sub(S, sub, x) for x in ga(sup)])
    if sup in aid:
        return R[aid[sub]][aid[sup]] if sub in aid else F
    if sub in aid:
        return F

    def kind(t):
        if t is typing.Tuple or go(t) is tuple or t is tuple:
            return "tuple"
        if t is typing.FrozenSet or go(t) is frozenset or t is frozenset:
            return "fset"
        if isinstance(t, type(G)):
            return "gen"
        return "?"
    ks, kp = kind(sub), kind(sup)
    if ks != kp:
        return F
    if kp == "tuple":
        a_s, a_p = ga(sub), ga(sup)
        if not a_p:
            return T
        if not a_s:
            a_s = (typing.Any, Ellipsis)      # the bare Tuple is Tuple[Any, ...]
        if a_p[-1] is Ellipsis:
            if a_s[-1] is Ellipsis:
                return ref_sub(S, a_s[0], a_p[0])
            return z3.And(*[ref_sub(S, x, a_p[0]) for x in a_s])
        if a_s[-1] is Ellipsis:
            return F
        if len(a_s) != len(a_p):
            return F
        return z3.And(*[ref_sub(S, x, y) for x, y in zip(a_s, a_p)])
    if kp == "fset":
        a_s, a_p = ga(sub), ga(sup)
        if not a_p:
            return T
        if not a_s:
            return T if a_p[0] is typing.Any else F
        return ref_sub(S, a_s[0], a_p[0])
    if kp == "gen":
        from funsor.typing import get_args, get_origin
        os_, op_ = get_origin(sub), get_origin(sup)
        if not issubclass(os_, op_):
            return F
        a_s, a_p = get_args(sub), get_args(sup)
        if len(a_s) != len(a_p):
            return T if len(a_p) == 0 else F
        return z3.And(*[ref_sub(S, x, y) for x, y in zip(a_s, a_p)])
    return F


def worker(inst):
    import z3
    from symx import engine
    kind = inst[0]
    out = dict(status="ok", label=str(inst), detail="", obligations=0, discharged=0, paths=0, nontrivial=True, twin=None)
    if kind == "dispatch":
        return dispatch_worker(inst, out)
    if kind == "history":
        return history_worker(inst, out)
    if kind == "termtype":
        return termtype_worker(inst, out)
    S = _setup()
    A = S["atoms"]
    ax = S["axioms"]

    def mk(name, i, j):
        return SHAPES[name](S, A[i], A[j])
    if kind == "refl":
        _, n1 = inst
        X = mk(n1, 0, 1)
        f, np_ = formula(S, X, X)
        goals = [("reflexive", f)]
        # agreement with instance membership is structural: deep_type of a tuple of atom instances
    elif kind == "ref":
        _, n1, n2, (i, j, k, l) = inst
        X, Y = mk(n1, i, j), mk(n2, k, l)
        f, np_ = formula(S, X, Y)
        goals = [("agrees with the reference definition", f == ref_sub(S, X, Y))]
    elif kind == "trans":
        _, n1, n2, n3 = inst
        X, Y, Z = mk(n1, 0, 1), mk(n2, 2, 3), mk(n3, 0, 3)
        fxy, p1 = formula(S, X, Y)
        fyz, p2 = formula(S, Y, Z)
        fxz, p3 = formula(S, X, Z)
        np_ = p1 + p2 + p3
        goals = [("transitive", z3.Implies(z3.And(fxy, fyz), fxz))]
    out["paths"] = np_
    for what, g in goals:
        out["obligations"] += 1
        v, m, dt = engine.check_valid(ax, g, 10000)
        if v == "unsat":
            out["discharged"] += 1
            continue
        if v == "unknown":
            out.update(status="inconclusive", detail="solver unknown")
            return out
        # replay: realise the leaf order from the model as real classes and ask the real, unpatched code.  Real
        # classes realise exactly the PARTIAL orders, so prefer a counterexample whose leaf relation is antisymmetric
        anti = [z3.Not(z3.And(S["R"][a][b], S["R"][b][a])) for a in range(NATOMS) for b in range(a + 1, NATOMS)]
        v2, m2, _ = engine.check_valid(list(ax) + anti, g, 10000)
        if v2 == "sat":
            m = m2
        rel = [[z3.is_true(m.eval(S["R"][a][b], model_completion=True)) for b in range(NATOMS)] for a in range(NATOMS)]
        rep = replay(inst, rel)
        if rep is None:
            out.update(status="inconclusive", detail="model did not reproduce with real classes (leaf order %s)" % rel)
            return out
        out.update(status="violation", kind="subtype", detail="%s fails: %s" % (what, rep), replay=dict(inst=inst, leaf_order=rel))
        return out
    if out["twin"] is None:
        out["twin"] = engine.check_valid(ax, z3.BoolVal(False), 5000)[0]
    return out


def replay(inst, rel):
    """build real classes whose MRO realises the model's leaf preorder (if it is realisable by single/multiple
    inheritance) and evaluate the property with the real, unpatched deep_issubclass in a fresh interpreter"""
    import json
    import subprocess
    code = r'''
import sys, json, typing, itertools
import os
sys.path.insert(0, "/verif"); sys.path.insert(0, os.environ.get("VERIF_REPO", "/repo"))
inst, rel = json.loads(sys.argv[1])
import funsor.typing as FT
from funsor.typing import GenericTypeMeta, deep_issubclass
n = len(rel)
# realise the preorder: class i inherits from every j != i with rel[i][j] (needs an acyclic strict part; equal
# classes collapse)
canon = list(range(n))
for i in range(n):
    for j in range(i):
        if rel[i][j] and rel[j][i]:
            canon[i] = canon[j]; break
order = sorted(set(canon), key=lambda i: sum(rel[i][j] for j in range(n)))
cls = {}
for i in order:
    ups = [canon[j] for j in range(n) if canon[j] != i and canon[j] in cls and rel[i][j] and not rel[j][i]]
    ups = list(dict.fromkeys(ups))
    # direct bases only (transitive reduction), otherwise the MRO is inconsistent
    direct = [u for u in ups if not any(v != u and rel[v][u] and not rel[u][v] for v in ups)]
    bases = tuple(cls[u] for u in direct)
    try:
        cls[i] = type("A%d" % i, bases or (object,), {})
    except TypeError:
        print(json.dumps(None)); sys.exit(0)
A = [cls[canon[i]] for i in range(n)]
for i in range(n):
    for j in range(n):
        if bool(issubclass(A[i], A[j])) != bool(rel[i][j]):
            print(json.dumps(None)); sys.exit(0)
class G(metaclass=GenericTypeMeta): pass
class H(G): pass
S = dict(G=G, H=H)
from checks.c16 import SHAPES
def mk(name, i, j): return SHAPES[name](S, A[i], A[j])
def sub(x, y):
    try: return bool(issubclass(FT.typing_wrap(x), FT.typing_wrap(y)))
    except TypeError: return False
kind = inst[0]
if kind == "refl":
    X = mk(inst[1], 0, 1); ok = sub(X, X); msg = "%s <= itself is %s" % (X, ok)
elif kind == "trans":
    X, Y, Z = mk(inst[1], 0, 1), mk(inst[2], 2, 3), mk(inst[3], 0, 3)
    ok = (not (sub(X, Y) and sub(Y, Z))) or sub(X, Z); msg = "%s <= %s <= %s but not %s <= %s" % (X, Y, Z, X, Z)
else:
    i, j, k, l = inst[3]
    X, Y = mk(inst[1], i, j), mk(inst[2], k, l)
    # reference on concrete classes
    import z3
    from checks import c16
    aid = {a: t for t, a in enumerate(A)}
    R = [[z3.BoolVal(bool(rel[canon[a]][canon[b]])) for b in range(n)] for a in range(n)]
    aid2 = {}
    for t, a in enumerate(A): aid2.setdefault(a, t)
    ref = z3.is_true(z3.simplify(c16.ref_sub(dict(aid=aid2, R=R, G=G, H=H), X, Y)))
    ok = sub(X, Y) == ref; msg = "deep_issubclass(%s, %s) = %s, reference says %s" % (X, Y, sub(X, Y), ref)
print(json.dumps(None if ok else msg))
'''
    try:
        r = subprocess.run([sys.executable, "-c", code, json.dumps([list(inst), rel])], capture_output=True, text=True, timeout=120)
        line = r.stdout.strip().splitlines()[-1] if r.stdout.strip() else "null"
        return json.loads(line)
    except Exception as e:  # noqa
        return None


def dispatch_worker(inst, out):
    """finite closure (not a solver result): in each dispatcher's resolution order no matching signature is
    preceded by a strictly more general one"""
    import funsor
    import funsor.cnf, funsor.tensor, funsor.delta, funsor.gaussian, funsor.joint, funsor.integrate, funsor.constant, funsor.sum_product, funsor.optimizer, funsor.adjoint  # noqa
    from multipledispatch.conflict import supercedes
    from funsor.interpretations import DispatchedInterpretation
    import funsor.interpretations as I
    import funsor.optimizer as O
    _, which = inst
    interps = {n: o for m in (I, O) for n, o in vars(m).items() if isinstance(o, DispatchedInterpretation)}
    interp = interps[which]
    n = 0
    for key, disp in interp.registry.registry.items():
        sigs = list(disp.funcs)
        for s in sigs:
            try:
                chosen = disp.dispatch(*s)
            except Exception:
                continue
            n += 1
            out["obligations"] += 1
            t_star = None
            for t in disp.ordering:
                try:
                    if supercedes(s, t):
                        t_star = t
                        break
                except Exception:
                    continue
            if t_star is None:
                continue
            if disp.funcs[t_star] is not chosen and chosen is not None:
                out.update(status="violation", kind="dispatch", detail="%s[%s]: dispatch(%s) did not return the first matching signature" % (which, getattr(key, "__name__", key), s))
                return out
            for t in sigs:
                try:
                    if t is not t_star and supercedes(s, t) and supercedes(t, t_star) and not supercedes(t_star, t):
                        out.update(status="violation", kind="dispatch", detail="%s[%s]: for argument types %s the rule with pattern %s runs although the strictly more specific pattern %s also matches" % (
                            which, getattr(key, "__name__", key), s, t_star, t))
                        return out
                except Exception:
                    continue
            out["discharged"] += 1
    if n == 0:
        out["status"] = "declined"
        out["detail"] = "no signatures"
    return out


def _more_specific(p, q):
    """p is at least as specific as q (members of a Union are classes here)"""
    import typing
    ps = typing.get_args(p) or (p,)
    qs = typing.get_args(q) or (q,)
    return all(any(issubclass(a, b) for b in qs) for a in ps)


def history_worker(inst, out):
    """concrete side check (a history property of the dispatcher cache, not a solver result): the choice depends
    only on the argument types, not on earlier dispatches / registration order among unrelated patterns"""
    from funsor.registry import KeyedRegistry, PartialDispatcher

    class A: pass
    class B(A): pass
    class C: pass
    out["obligations"] = 3
    d = PartialDispatcher(default=lambda *a: "default")
    d.add((A,), lambda x: "A")
    r1 = d.partial_call(B())(B())
    d.add((B,), lambda x: "B")
    r2 = d.partial_call(B())(B())
    if (r1, r2) != ("A", "B"):
        out.update(status="violation", kind="dispatch", detail="dispatch after a later, more specific registration returned %r (stale cache)" % (r2,))
        return out
    out["discharged"] += 1
    for order in itertools.permutations([(A, "A"), (B, "B"), (C, "C")]):
        d = PartialDispatcher(default=lambda *a: "default")
        for cls, nm in order:
            d.add((cls,), (lambda nm: (lambda x: nm))(nm))
        got = (d.partial_call(B())(B()), d.partial_call(A())(A()), d.partial_call(C())(C()), d.partial_call(1)(1))
        if got != ("B", "A", "C", "default"):
            out.update(status="violation", kind="dispatch", detail="registration order %s changes the choice: %s" % ([n for _, n in order], got))
            return out
    out["discharged"] += 1
    # Union patterns against plain classes, through a real DispatchedInterpretation, in every registration order
    import typing
    import numpy as np
    import funsor
    import funsor.ops as ops
    from funsor.interpretations import DispatchedInterpretation
    from funsor.tensor import Tensor
    from funsor.terms import Funsor, Number, Unary, Variable
    out["obligations"] += 1
    pats = {"funsor": Funsor, "union": typing.Union[Number, Tensor], "number": Number, "union2": typing.Union[Number, Variable]}
    for names in (("funsor", "union", "number"), ("funsor", "union", "union2"), ("funsor", "union")):
        for order in itertools.permutations(names):
            interp = DispatchedInterpretation("order")
            for o in order:
                interp.register(Unary, ops.NegOp, pats[o])((lambda o: (lambda op, a: o))(o))
            args = {"number": Number(1.0), "tensor": Tensor(np.zeros(2)), "variable": Variable("v", funsor.Real)}
            got = {k: interp.interpret(Unary, ops.neg, v) for k, v in args.items()}
            # the most specific registered pattern per argument kind
            def want(kind):
                cands = [n for n in names if isinstance(args[kind], typing.get_args(pats[n]) or (pats[n],))]
                best = [n for n in cands if all(n == m or _more_specific(pats[n], pats[m]) for m in cands)]
                return set(best) if best else set(cands)
            for kind in args:
                if got[kind] not in want(kind):
                    out.update(status="violation", kind="dispatch", detail="patterns %s registered in order %s: a %s argument runs rule %r, expected one of %s" % (
                        list(names), list(order), kind, got[kind], sorted(want(kind))), replay=dict(order=list(order)))
                    return out
    out["discharged"] += 1
    # ops created AFTER import, from bases at every depth of the op class hierarchy: the patterns registered on
    # ancestors (Funsor arguments build lazy terms) must apply to them as to the built-in ops
    out["obligations"] += 1
    from funsor.terms import Binary
    x, y = Variable("x", funsor.Real), Variable("y", funsor.Real)
    for base in ("UnaryOp", "TransformOp", "BinaryOp", "AssociativeOp"):
        OB = getattr(ops, base, None)
        if OB is None:
            continue
        try:
            if base in ("UnaryOp", "TransformOp"):
                late = OB.make(lambda a: a + 1.0, name="late_%s_%d" % (base[:3].lower(), len(base)))
                t = late(x)
                okk = isinstance(t, Funsor) and set(t.inputs) == {"x"} and late in t._ast_values and late(2.0) == 3.0
            else:
                late = OB.make(lambda a, b: a - 2.0 * b, name="late_%s_%d" % (base[:3].lower(), len(base)))
                t = late(x, y)
                t2 = late(x, 1.0)
                okk = (isinstance(t, Funsor) and set(t.inputs) == {"x", "y"} and late in t._ast_values and
                       isinstance(t2, Funsor) and set(t2.inputs) == {"x"} and late in t2._ast_values and late(5.0, 1.0) == 3.0)
        except TypeError as e:
            okk = False
            t = "TypeError: %s" % e
        if not okk:
            out.update(status="violation", kind="dispatch", detail="an op made from %s after import does not dispatch like the built-in ops: applied to Variables it gives %r" % (base, t))
            return out
    out["discharged"] += 1
    reg = KeyedRegistry(default=lambda *a: None)
    reg.register(A, A)(lambda x: "AA")
    first = reg.dispatch(A, B())
    reg.register(A, B)(lambda x: "AB")
    second = reg.dispatch(A, B())
    if first(B()) != "AA" or second(B()) != "AB":
        out.update(status="violation", kind="dispatch", detail="KeyedRegistry: stale dispatch after registration")
        return out
    out["discharged"] += 1
    return out


def _walk_types(t, seen, bad, where):
    """every term is an instance of its own precise type: type(t) == origin[deep_type(args)], and of the
    generalisation origin[origins of the argument types]"""
    from funsor.terms import Funsor
    from funsor.typing import deep_isinstance, deep_type, get_args, get_origin
    if not isinstance(t, Funsor) or id(t) in seen:
        return
    seen.add(id(t))
    args = t._ast_values
    want = get_origin(type(t))[tuple(map(deep_type, args))]
    if type(t) is not want:
        bad.append("%s: term %s has type %s but its arguments have types %s" % (where, str(t)[:80], type(t), want))
    elif not deep_isinstance(t, want):
        bad.append("%s: term %s is not an instance of its own precise type %s" % (where, str(t)[:80], want))

    def rec(a):
        if isinstance(a, Funsor):
            _walk_types(a, seen, bad, where)
        elif isinstance(a, (tuple, frozenset)):
            for x in a:
                rec(x)
    for a in args:
        rec(a)


def termtype_worker(inst, out):
    """concrete side check: terms that come out of reinterpretation (children changed type, parent fell through to
    reflect), out of direct construction afterwards, and out of the program families under the deferred schedules"""
    import numpy as np
    import funsor
    from funsor import ops
    from funsor.domains import Real
    from funsor.interpretations import eager, lazy, normalize, reflect
    from funsor.interpreter import reinterpret
    from funsor.terms import Number, Stack, Variable
    _, which = inst
    bad = []
    if which == "fold":
        v, w = Variable("v", Real), Variable("w", Real)
        folds = [lambda: Number(2.0) * Number(3.0), lambda: Number(1.0) + Number(2.0), lambda: -Number(2.0), lambda: ops.exp(Number(0.0)),
                 lambda: (Number(2.0) * Number(3.0)) + Number(1.0)]
        shapes = [lambda f: f() ** v, lambda f: f() < v, lambda f: v ** f(), lambda f: (f() ** v) - w, lambda f: ops.exp(f() ** v),
                  lambda f: Stack("s", (f() ** v, v * 1.0)), lambda f: (f() ** v) ** (f() ** w), lambda f: (v ** f())(v=w)]
        for fi, f in enumerate(folds):
            for si, sh in enumerate(shapes):
                for interp in (eager, normalize, lazy):
                    with reflect:
                        t = sh(f)
                    with interp:
                        r = reinterpret(t)
                    out["obligations"] += 1
                    n0 = len(bad)
                    _walk_types(r, set(), bad, "reinterpret[%s] fold %d shape %d" % (interp.__name__, fi, si))
                    with interp:
                        r2 = sh(f)          # the same term written directly afterwards (cons cache)
                    _walk_types(r2, set(), bad, "direct[%s] fold %d shape %d" % (interp.__name__, fi, si))
                    if len(bad) == n0:
                        out["discharged"] += 1
    else:
        from harness.core import conc_leaves
        from harness.schedules import SCHEDULES
        from lang import gen
        import random
        rng = random.Random(0)
        progs = list(gen.depth1("real"))
        rng.shuffle(progs)
        for p in progs[:150]:
            try:
                leaves = conc_leaves(p, rng)
                r = SCHEDULES[which](p, leaves)
            except Exception:
                continue
            out["obligations"] += 1
            n0 = len(bad)
            _walk_types(r, set(), bad, "%s %s" % (which, p[0]))
            if len(bad) == n0:
                out["discharged"] += 1
    if bad:
        out.update(status="violation", kind="dispatch", detail=bad[0][:400], replay=dict(problems=bad[:10]))
    return out


def main():
    chk = Check("C16", "model_checking")
    names = QUICK_SHAPES if chk.tier == "quick" else list(SHAPES)
    insts = [("refl", n) for n in names]
    idx = [(0, 1, 0, 1), (0, 1, 2, 3), (0, 1, 1, 0), (0, 0, 1, 1), (1, 2, 0, 3)]
    for n1, n2 in itertools.product(names, repeat=2):
        for t in (idx[:3] if chk.tier == "quick" else idx):
            insts.append(("ref", n1, n2, t))
    trip = list(itertools.product(names, repeat=3))
    if chk.tier == "quick":
        import random
        random.Random(chk.seed).shuffle(trip)
        trip = trip[:900]
    insts += [("trans",) + t for t in trip]
    insts += [("dispatch", w) for w in ("eager_base", "normalize_base", "lazy_base", "sequential_base", "moment_matching_base", "unfold_base", "optimize_base")]
    insts += [("history",)]
    insts += [("termtype", w) for w in ("fold", "lazy", "reflect", "normalize", "lazy>normalize", "memoize>lazy")]
    chk.map("checks.c16", "worker", insts, chunksize=16)
    chk.bounds = dict(leaf_types=NATOMS, shapes=names, depth="<= 2", relation_on_leaves="every reflexive transitive relation (16 symbolic booleans)")
    chk.assumptions = ["the module-level deep_issubclass is intercepted for leaf pairs only (lru_cache bypassed); everything else is the real code",
                       "dispatch-order closure, the dispatcher-history side check and the term/precise-type agreement walk are exhaustive/concrete, not solver results",
                       "independence from cache state beyond the registration-after-dispatch scenario is outside the claim"]
    chk.floor = 300
    chk.finish(rule="reflexivity per shape, agreement with the reference definition per ordered pair of shapes x leaf placement, transitivity per triple (seeded subset in quick); distinct = descriptor",
               trusted_base=["z3 5.1", "symx.engine/symint", "reference subtype definition in checks/c16.py", "multipledispatch.conflict.supercedes"])


if __name__ == "__main__":
    main()
