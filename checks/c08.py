"""C08 — normal forms and contraction-order optimisation preserve value (Engine A)."""
import itertools
import os
import random
import sys

sys.path.insert(0, os.path.dirname(os.path.dirname(os.path.abspath(__file__))))

from harness.runner import Check  # noqa: E402

SEMIRINGS = [("add", "mul", "real"), ("logaddexp", "add", "log"), ("max", "add", "real"), ("min", "add", "real"),
             ("max", "mul", "nonneg"), ("min", "mul", "nonneg"), ("or_", "and_", "bool")]
SCHEDS = ["optimizer", "normalize_idem", "lazy_normalize_eager", "unfold", "normalize", "normalize>optimizer"]
VARS = [("a", 2), ("b", 3), ("c", 2), ("d", 2)]


def gen_sumproducts(rng, n, sum_op, prod_op, carrier, max_ops):
    """nested sums of products with substitutions; operands with/without each variable"""
    from lang.prog import binary, leaf, num, reduce_, subs, var
    out = []
    for _ in range(n):
        k = rng.randint(2, max_ops)
        ops_ = []
        for i in range(k):
            vs = [v for v in VARS if rng.random() < 0.5]
            rng.shuffle(vs)
            ops_.append(leaf("f%d" % i, tuple(vs[:3]), (), carrier))
        # optional free real parameter operand
        if carrier in ("real",) and rng.random() < 0.3:
            ops_.append(var("theta", ("real", ())))
        if rng.random() < 0.2 and carrier != "bool":
            ops_.append(num({"real": 2.0, "log": 0.0, "nonneg": 2.0}[carrier]))
        rng.shuffle(ops_)
        # split into an inner sum of product and outer operands
        cut = rng.randint(1, len(ops_))
        inner = ops_[:cut]
        e = inner[0]
        for o in inner[1:]:
            e = binary(prod_op, e, o)
        used = [v for v in VARS if any(v in o[2] for o in inner if o[0] == "leaf")]
        red1 = tuple(v for v in VARS if rng.random() < 0.5)
        if red1:
            e = reduce_(sum_op, e, red1)
        if rng.random() < 0.25:
            from lang.prog import type_of
            try:
                ins = [kk for kk, d in type_of(e)[0].items() if d[0] == "bint"]
            except Exception:
                ins = []
            if ins:
                kk = rng.choice(ins)
                size = dict(VARS)[kk]
                e = subs(e, ((kk, rng.choice([num(0, size), var("r_" + kk, ("bint", size))])),))
        for o in ops_[cut:]:
            e = binary(prod_op, e, o) if rng.random() < 0.8 else binary(prod_op, o, e)
        red2 = tuple(v for v in VARS if rng.random() < 0.4)
        if red2:
            e = reduce_(sum_op, e, red2)
        out.append(e)
    return out


def gen_sameop(rng, n):
    """reductions whose op equals the binary op underneath (sum of sums, product of products, ...): some operand
    does not mention a reduced variable, so its multiplicity matters"""
    from lang.prog import binary, leaf, num, reduce_
    out = []
    for _ in range(n):
        op, car = rng.choice([("add", "real"), ("mul", "pos"), ("logaddexp", "log"), ("max", "real"), ("min", "real")])
        k = rng.randint(2, 3)
        ops_ = []
        for i in range(k):
            vs = [v for v in VARS if rng.random() < 0.5]
            ops_.append(leaf("g%d" % i, tuple(vs), (), car))
        if car == "real" and rng.random() < 0.4:
            from lang.prog import var
            ops_.insert(rng.randrange(len(ops_) + 1), var("theta", ("real", ())))     # a free real parameter
        e = ops_[0]
        for o in ops_[1:]:
            e = binary(op, e, o)
        red = tuple(v for v in VARS if rng.random() < 0.6) or (VARS[0],)
        out.append((op, car, reduce_(op, e, red)))
    return out


def gen_distributive(rng, n, sum_op, prod_op, carrier):
    """a sum nested inside a product under a reduction, a repeated operand object, and both"""
    from lang.prog import binary, leaf, num, reduce_
    out = []
    for _ in range(n):
        def L(i):
            vs = [v for v in VARS if rng.random() < 0.5]
            return leaf("h%d" % i, tuple(vs), (), carrier)
        a, b, c, d = L(0), L(1), L(2), L(3)
        kind = rng.choice(["dist", "dist2", "repeat", "repeat3", "both"])
        if kind == "dist":
            e = binary(prod_op, a, binary(sum_op, b, c))
        elif kind == "dist2":
            e = binary(prod_op, binary(sum_op, a, b), binary(prod_op, c, binary(sum_op, d, a if rng.random() < 0.3 else c)))
        elif kind == "repeat":
            e = binary(prod_op, binary(prod_op, a, a), b)
        elif kind == "repeat3":
            e = binary(prod_op, binary(prod_op, a, b), binary(prod_op, a, binary(prod_op, c, a)))
        else:
            e = binary(prod_op, a, binary(prod_op, binary(sum_op, b, c), a))
        red = tuple(v for v in VARS if rng.random() < 0.6) or (VARS[1],)
        out.append(reduce_(sum_op, e, red))
    return out


def gen_mixed(rng, n):
    """three ops in one expression (non-negative data): a product with a factor that is a max/min-reduced sum, a sum
    of max-reduced products, unary ops over reductions - shapes on which a distribution/fusion rule must NOT fire"""
    from lang.prog import binary, leaf, num, reduce_, unary
    out = []
    for _ in range(n):
        def L(i):
            vs = [v for v in VARS if rng.random() < 0.55]
            return leaf("m%d" % i, tuple(vs), (), "nonneg")
        a, b, c, d = L(0), L(1), L(2), L(3)
        mm = rng.choice(["max", "min"])
        kind = rng.choice(["mul_of_reduced_sum", "sum_of_reduced_prod", "neg_of_reduce", "nested3", "prod_sum_max"])
        red = tuple(v for v in VARS if rng.random() < 0.5) or (VARS[0],)
        red2 = tuple(v for v in VARS if rng.random() < 0.4)
        if kind == "mul_of_reduced_sum":
            e = binary("mul", a, reduce_(mm, binary("add", b, c), red))
        elif kind == "sum_of_reduced_prod":
            e = binary("add", a, reduce_(mm, binary("mul", b, c), red))
        elif kind == "neg_of_reduce":
            e = unary("neg", reduce_(rng.choice([mm, "add"]), binary(rng.choice(["add", "mul"]), a, b), red))
        elif kind == "nested3":
            e = reduce_("add", binary("mul", a, reduce_(mm, binary("add", b, binary("mul", c, d)), red)), red2 or red)
        else:
            e = binary("mul", binary("add", a, b), reduce_(mm, binary("mul", c, d), red))
        if red2 and kind != "nested3":
            e = reduce_(rng.choice(["add", mm]), e, red2)
        out.append(e)
    return out


def gen_signed_maxmul(rng, n):
    """max/min reductions of products with SIGNED data: real leaves, and non-negative leaves under a negation or a
    subtraction (normalize rewrites -x to x * -1 and a - b to a + b * -1).  (max|min, mul) is declared distributive
    although it is on non-negative data only, so the normalising / distributing passes are expected to go wrong
    here: the family exists to keep known finding KF-maxmul-signed honest (C03), not to widen C08's claim."""
    from lang.prog import binary, leaf, num, reduce_, unary
    out = []
    for _ in range(n):
        kind = rng.choice(["real_factor", "neg_inside", "neg_between", "sub_outside"])
        car = "real" if kind == "real_factor" else "nonneg"
        def L(i, must=None):
            vs = [v for v in VARS if rng.random() < 0.55 or v == must]
            return leaf("m%d" % i, tuple(vs), (), car)
        red = tuple(v for v in VARS if rng.random() < 0.5) or (VARS[0],)
        a, b = L(0, red[0]), L(1)
        mm, mm2 = rng.choice(["max", "min"]), rng.choice(["max", "min"])
        if kind == "real_factor":
            e = reduce_(mm, binary("mul", a, b), red)
        elif kind == "neg_inside":
            e = reduce_(mm, unary("neg", binary("mul", a, b)), red)
        elif kind == "neg_between":
            red2 = tuple(v for v in VARS if v not in red and rng.random() < 0.7)
            e = unary("neg", reduce_(mm, binary("mul", a, b), red))
            if red2:
                e = reduce_(mm2, binary("add", e, L(2, red2[0])) if rng.random() < 0.3 else e, red2)
        else:
            e = binary("sub", num(0.5), reduce_(mm, binary("mul", a, b), red))
        out.append(e)
    return out


def einsum_instances(tier):
    """funsor.einsum.einsum(...) for all equations with <= 3 (|4) operands x 3 (|4) symbols (operand = subset of symbols)"""
    syms = "abc" if tier == "quick" else "abcd"
    subsets = ["".join(s) for r in range(0, 3) for s in itertools.combinations(syms, r)]
    out = []
    for nops in (1, 2, 3) if tier == "quick" else (1, 2, 3, 4):
        combos = list(itertools.product(subsets, repeat=nops))
        rng = random.Random(nops)
        rng.shuffle(combos)
        for ins in combos[: (40 if tier == "quick" else 300)]:
            used = sorted(set("".join(ins)))
            for outs in {"", "".join(used[:1]), "".join(used[:2])}:
                out.append(("einsum", ",".join(ins) + "->" + outs))
    return out


def einsum_worker(inst):
    from harness.oblig import decide
    from lang import cellops as C
    import numpy as np
    _, eq, backend = inst
    sizes = {"a": 2, "b": 3, "c": 2, "d": 2}
    ins_s, out_s = eq.split("->")
    ins_s = ins_s.split(",")
    car, addn = {"numpy": ("real", "add"), "funsor.einsum.numpy_log": ("log", "logaddexp"), "funsor.einsum.numpy_map": ("real", "max")}[backend]
    muln = "mul" if backend == "numpy" else "add"

    def ob(mk):
        from collections import OrderedDict
        from funsor import Bint, Tensor
        from funsor.einsum import einsum
        from symx.symarray import as_obj
        xs, ts, seen = [], [], {}
        for i, s in enumerate(ins_s):
            if s in seen:        # the same operand OBJECT is passed again for a repeated subscript
                xs.append(xs[seen[s]])
                ts.append(ts[seen[s]])
                continue
            seen[s] = i
            xs.append(mk.array("x%d" % i, tuple(sizes[c] for c in s), car))
            ts.append(Tensor(xs[-1], OrderedDict((c, Bint[sizes[c]]) for c in s)))
        r = einsum(eq, *ts, backend=backend)
        data = r.align(tuple(out_s)).data if out_s else r.data
        summed = sorted(set("".join(ins_s)) - set(out_s))
        raw = [as_obj(x) for x in xs]
        exp = np.empty(tuple(sizes[c] for c in out_s), dtype=object)
        for oidx in np.ndindex(*exp.shape):
            asg = dict(zip(out_s, oidx))
            terms = []
            for sidx in itertools.product(*(range(sizes[c]) for c in summed)):
                asg.update(zip(summed, sidx))
                terms.append(C.fold(muln, [r_[tuple(asg[c] for c in s)] for s, r_ in zip(ins_s, raw)]))
            exp[oidx] = C.fold(addn, terms)
        return [(data, exp)]
    tier = os.environ.get("VERIF_TIER", "quick")
    return decide(str(inst), ob, timeout_ms=5000 if tier == "quick" else 10000, twin=True)


def worker(inst):
    from symx.symarray import use_logsumexp_spec
    use_logsumexp_spec()
    if inst[0] == "einsum":
        return einsum_worker(inst)
    from harness.core import check_prog, relational_oracle
    from harness.schedules import SCHEDULES, immediate
    _, sched, sr, prog, rel, twin = inst
    tmo = 4000 if os.environ.get("VERIF_TIER", "quick") == "quick" else 8000
    return check_prog(prog, SCHEDULES[sched], twin=twin, label="%s|%s/%s" % (sched, sr[0], sr[1]),
                      oracle_fn=relational_oracle(immediate) if rel else None,
                      int_range_check=False, check_dtype=False, timeout_ms=tmo)


def instances(tier, seed):
    rng = random.Random(seed)
    out = []
    n = 0
    for sr in SEMIRINGS:
        heavy = sr[1] == "mul" and sr[0] in ("max", "min")      # nonlinear max-of-products: keep the queries small
        progs = gen_sumproducts(rng, (25 if heavy else 45) if tier == "quick" else (100 if heavy else 260), sr[0], sr[1], sr[2],
                                (3 if heavy else 5) if tier == "quick" else (4 if heavy else 8))
        for p in progs:
            for s in (SCHEDS if tier != "quick" else rng.sample(SCHEDS, 2)):
                n += 1
                out.append(("prog", s, sr, p, False, n % 15 == 0))
            if n % 5 == 0:
                out.append(("prog", "optimizer", sr, p, True, False))     # relational: optimized == naive eager
    for sr in SEMIRINGS:
        heavy = sr[1] == "mul" and sr[0] in ("max", "min")
        for p in gen_distributive(rng, (10 if heavy else 25) if tier == "quick" else (30 if heavy else 130), sr[0], sr[1], sr[2]):
            for sch in ("optimizer", "normalize>optimizer", "lazy>normalize>optimizer", "unfold", "lazy_normalize_eager"):
                if tier == "quick" and rng.random() < 0.4:
                    continue
                n += 1
                out.append(("prog", sch, sr, p, False, False))
    for p in gen_mixed(rng, 40 if tier == "quick" else 220):
        for sch in ("optimizer", "unfold", "normalize", "lazy_normalize_eager", "normalize>optimizer"):
            if tier == "quick" and rng.random() < 0.4:
                continue
            out.append(("prog", sch, ("mixed", "mixed", "nonneg"), p, False, False))
    for op, car, p in gen_sameop(rng, 40 if tier == "quick" else 220):
        for sch in (SCHEDS + ["immediate"] if tier != "quick" else ["normalize", "lazy_normalize_eager", "immediate"]):
            out.append(("prog", sch, (op, op, car), p, False, False))
    for _, eq in einsum_instances(tier):
        for be in ("numpy", "funsor.einsum.numpy_log", "funsor.einsum.numpy_map"):
            out.append(("einsum", eq, be))
    return out


def main():
    chk = Check("C08", "model_checking")
    insts = instances(chk.tier, chk.seed)
    chk.map("checks.c08", "worker", insts, chunksize=6)
    chk.bounds = dict(semirings=[s[:2] for s in SEMIRINGS], operands="2..5 (quick) / 2..8", inputs=dict(VARS), schedules=SCHEDS,
                      einsum="equations with <= 3|4 operands over 3|4 symbols (seeded subset per arity), three backends")
    chk.assumptions = ["assume-guarantee cut: funsor.ops.logsumexp on symbolic arrays is replaced by its specification (decided on its own under C01/C15); maxima of ops.detach()ed log-space arrays are abstracted to arbitrary positive shifts", "carrier per semiring: real for add/mul and max|min/add, nonneg for max|min/mul, log for logaddexp/add, bool for or/and"]
    chk.floor = 300
    chk.finish(rule="seeded nested sum-of-product expressions per semiring x schedule; einsum equations x backend; distinct = printed program + schedule",
               trusted_base=["z3 5.1", "symx", "lang.denote"])


if __name__ == "__main__":
    main()
