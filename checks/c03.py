"""C03 — exact interpretations are interchangeable: deferred == immediate (relational, Engine A)."""
import os
import random
import sys

sys.path.insert(0, os.path.dirname(os.path.dirname(os.path.abspath(__file__))))

from harness.runner import Check  # noqa: E402

SCHED_Q = ["lazy", "reflect", "normalize", "lazy>normalize", "normalize>lazy", "memoize>lazy", "sequential", "moment_matching",
           "memo_twice", "memo_deferred"]
SCHED_T = SCHED_Q + ["eager>lazy", "lazy>eager", "lazy>memoize", "lazy_normalize_eager"]


def worker(inst):
    from harness.core import check_prog, relational_oracle
    from harness.schedules import SCHEDULES, immediate
    from lang.prog import stack
    sched, theme, prog, twin = inst
    tmo = 4000 if os.environ.get("VERIF_TIER", "quick") == "quick" else 8000
    from harness.core import SideViolation

    def builder(p, leaves):
        r = SCHEDULES[sched](p, leaves)
        try:
            ref = immediate(p, leaves)
        except Exception:
            return r
        if r.output != ref.output:
            raise SideViolation("DOMAIN: %s result has output %s, immediate evaluation %s" % (sched, r.output, ref.output))
        return r
    out = check_prog(prog, builder, twin=twin, label="%s|%s|TCO=%s|TYPECHECK=%s" % (
        sched, theme, os.environ.get("FUNSOR_USE_TCO", "0"), os.environ.get("FUNSOR_TYPECHECK", "0")),
        oracle_fn=relational_oracle(immediate), int_range_check=False, check_dtype=False, timeout_ms=tmo)
    return out


def memo_class_worker(inst):
    """memoize never returns a result computed for different arguments - the term CLASS is one of the arguments: two
    user-defined term classes (funsor.factory.make_funsor) applied to the same tensor inside one memoize block"""
    from harness.oblig import decide

    def ob(mk):
        from collections import OrderedDict
        import funsor
        from funsor import Bint, Tensor
        from funsor.factory import Fresh, make_funsor
        from funsor.interpretations import eager, memoize
        from funsor.terms import Funsor
        from symx.symarray import as_obj

        @make_funsor
        def VDouble(x: Funsor) -> Fresh[lambda x: x]:
            return None

        @make_funsor
        def VSquare(x: Funsor) -> Fresh[lambda x: x]:
            return None
        eager.register(VDouble, Tensor)(lambda x: x + x)
        eager.register(VSquare, Tensor)(lambda x: x * x)
        X = mk.array("x", (3,), "real")
        t = Tensor(X, OrderedDict(i=Bint[3]))
        order = inst[1]
        with memoize():
            if order == "double_first":
                d = VDouble(t)
                s_ = VSquare(t)
            else:
                s_ = VSquare(t)
                d = VDouble(t)
            d2 = VDouble(t)
        Xc = as_obj(X)
        import z3
        same = d2 is d
        return [([as_obj(d.data)[i] for i in range(3)], [Xc[i] + Xc[i] for i in range(3)]),
                ([as_obj(s_.data)[i] for i in range(3)], [Xc[i] * Xc[i] for i in range(3)]),
                (z3.BoolVal(same) if mk.symbolic else same, None)]
    out = decide("memo_class|%s" % (inst[1],), ob, timeout_ms=8000, twin=False)
    out["prog"] = out["label"]
    return out


def programs(tier, seed):
    from lang import gen
    rng = random.Random(seed)
    out = []
    for theme in ("real", "log", "bool", "int", "pos"):
        d1 = list(gen.depth1(theme))
        rng.shuffle(d1)
        out += [(theme, p) for p in d1[:60 if tier == "quick" else 300]]
        d2 = list(gen.depth2(theme, rng, per_inner=1 if tier == "quick" else 3))
        rng.shuffle(d2)
        out += [(theme, p) for p in d2[:40 if tier == "quick" else 400]]
    out += [("real", p) for p in gen.einsum_progs()] + [("real", p) for p in gen.independent_progs()] + [("real", p) for p in gen.constant_progs()[::2]] + [("sameop:nondistributive", p) for p in gen.nondistributive_progs()] + [("sameop:stack", p) for p in gen.stack_hetero_progs()]
    from checks.c08 import SEMIRINGS, gen_mixed, gen_sameop, gen_signed_maxmul, gen_sumproducts
    out += [("sameop:signed-maxmul", p) for p in gen_signed_maxmul(rng, 12 if tier == "quick" else 120)]
    out += [("sameop:" + op, p) for op, car, p in gen_sameop(rng, 30 if tier == "quick" else 300)]
    out += [("sameop:mixed", p) for p in gen_mixed(rng, 30 if tier == "quick" else 300)]
    for sr in SEMIRINGS[:4]:
        out += [("sameop:%s/%s" % sr[:2], p) for p in gen_sumproducts(rng, 15 if tier == "quick" else 150, sr[0], sr[1], sr[2], 4)]
    # a unary op over a reduction it must NOT be pushed through: -(max_i (a + b)), -(min_i (a * b)), exp(max), ... (fixed programs:
    # the random "mixed" family above contains this shape only by chance)
    from lang.prog import binary, leaf, num, reduce_, subs, unary, var
    na = leaf("na", (("a", 2), ("b", 3)), (), "nonneg")
    nb = leaf("nb", (("a", 2), ("c", 2)), (), "nonneg")
    for mm in ("max", "min", "add"):
        for inner in ("add", "mul"):
            for un in ("neg", "exp"):
                out.append(("sameop:unary_of_reduce", unary(un, reduce_(mm, binary(inner, na, nb), (("a", 2),)))))
                out.append(("sameop:unary_of_reduce", reduce_("add", unary(un, reduce_(mm, binary(inner, na, nb), (("a", 2),))), (("c", 2),))))
    # chained substitutions into terms that stay lazy (renaming onto an existing input, then binding it)
    from lang.prog import binary, leaf, num, subs, unary, var
    x = leaf("x", (("i", 2), ("j", 3), ("k", 2)))
    for f in (unary("exp", x), binary("mul", x, leaf("w", (("k", 2),))), unary("neg", x)):
        for first, second in ((("i", var("k", ("bint", 2))), ("k", num(1, 2))), (("k", var("i", ("bint", 2))), ("i", num(0, 2))),
                              (("i", var("k", ("bint", 2))), ("k", leaf("ix", (("j", 3),), (), ("int", 2)))), (("j", num(2, 3)), ("i", var("k", ("bint", 2))))):
            out.append(("sameop:chain", subs(subs(f, (first,)), (second,))))
    # a strided Slice substituted into a term that stays lazy, then a second Slice into the new input (normalize
    # fuses the two substitutions into a Slice-into-Slice composition)
    from lang.prog import slice_
    xq = leaf("xq", (("q", 6), ("k", 2)))
    for f in (unary("exp", xq), binary("mul", xq, leaf("w", (("k", 2),))), xq):
        for (a1, b1, s1), (a2, b2, s2) in (((1, 6, 2), (1, 3, 1)), ((0, 6, 2), (1, 3, 2)), ((1, 6, 1), (1, 5, 3)), ((0, 5, 3), (1, 2, 1)), ((2, 6, 1), (0, 4, 2)), ((1, 6, 2), (0, 3, 2))):
            n1 = len(range(a1, b1, s1))
            if b2 > n1:
                continue
            out.append(("sameop:chain", subs(subs(f, (("q", slice_("t", a1, b1, s1, 6)),)), (("t", slice_("u", a2, b2, s2, n1)),))))
    return out


def main():
    chk = Check("C03", "model_checking")
    progs = programs(chk.tier, chk.seed)
    scheds = SCHED_Q if chk.tier == "quick" else SCHED_T
    rng = random.Random(chk.seed + 1)
    envs = [("0", "0"), ("1", "0")] if chk.tier == "quick" else [("0", "0"), ("1", "0"), ("0", "1"), ("1", "1")]
    n = 0
    for tco, tc in envs:
        # the env flags are read when funsor is imported: one pool of fresh worker processes per configuration
        os.environ["FUNSOR_USE_TCO"] = tco
        os.environ["FUNSOR_TYPECHECK"] = tc
        insts = []
        for theme, p in progs:
            if chk.tier == "quick":
                chosen = rng.sample(scheds, 3) if not theme.startswith("sameop") else ["normalize", "lazy>normalize", "lazy"]
            else:       # thorough: every program under 4 seeded schedules per env configuration (all 14 over the 4 configurations on average)
                chosen = rng.sample(scheds, 4) if not theme.startswith("sameop") else ["normalize", "lazy>normalize", "lazy", "lazy_normalize_eager"]
            for s in chosen:
                n += 1
                insts.append((s, theme, p, n % 13 == 0))
        chk.map("checks.c03", "worker", insts, chunksize=8, family="TCO=%s,TYPECHECK=%s" % (tco, tc))
    chk.map("checks.c03", "memo_class_worker", [("memo_class", "double_first"), ("memo_class", "square_first")], chunksize=1, family="memo_class")
    os.environ.pop("FUNSOR_USE_TCO", None)
    os.environ.pop("FUNSOR_TYPECHECK", None)
    chk.bounds = dict(programs="C01 families (seeded subset)", schedules=scheds, reinterpreters="recursive and stack (FUNSOR_USE_TCO=0/1)",
                      typecheck="FUNSOR_TYPECHECK 0/1" if chk.tier != "quick" else "FUNSOR_TYPECHECK=0")
    chk.assumptions = ["relational check: both sides are runs of the real code over the same symbolic cells; no oracle",
                       "memoize object-identity conditions are concrete side checks"]
    chk.floor = 300
    chk.finish(rule="one instance per (program, schedule, env configuration); distinct = printed program + schedule + env",
               trusted_base=["z3 5.1", "symx"])


if __name__ == "__main__":
    main()
