"""C20 — terms and the arrays behind them are never mutated (Engine A; monitor decided by the solver, plus a
bit-for-bit concrete complement on float64 arrays)."""
import os
import random
import sys

sys.path.insert(0, os.path.dirname(os.path.dirname(os.path.abspath(__file__))))

from harness.runner import Check  # noqa: E402

SCHEDS = ["immediate", "lazy", "normalize", "optimizer", "sequential", "memo_twice", "unfold", "lazy_normalize_eager"]


def children(prog):
    out = []
    for x in prog[1:]:
        if isinstance(x, tuple) and x and isinstance(x[0], str) and x[0] in ("leaf", "unary", "binary", "reduce", "subs", "getitem", "getslice", "lambda", "stack", "cat", "outreduce", "reshape", "einsum", "independent", "align", "slice", "var", "num"):
            out.append(x)
        elif isinstance(x, tuple):
            for y in x:
                if isinstance(y, tuple) and y and isinstance(y[0], str) and y[0] in ("leaf", "unary", "binary", "reduce", "subs", "getitem", "lambda", "stack", "cat", "outreduce", "reshape"):
                    out.append(y)
                elif isinstance(y, tuple) and len(y) == 2 and isinstance(y[1], tuple) and y[1] and isinstance(y[1][0], str) and y[1][0] in ("leaf", "num", "var", "slice", "binary"):
                    out.append(y[1])
    return out


def extra_ops(res):
    """operations applied to the result and the held sub-terms after the program ran (none may write)"""
    import funsor
    import funsor.ops as ops
    from funsor.tensor import Tensor
    from funsor.terms import to_data
    out = []
    try:
        if isinstance(res, Tensor) and res.inputs:
            names = tuple(reversed(list(res.inputs)))
            out.append(res.align(names))
            out.append(res.reduce(ops.add if res.dtype == "real" else ops.max, names[0]))
            k = names[0]
            out.append(res(**{k: 0}))
            out.append(to_data(res, {n: -1 - i - len(res.output.shape) for i, n in enumerate(names)}))
        if isinstance(res, Tensor) and res.dtype == "real":
            out.append(res + 1.0)
            out.append(ops.exp(res * 0.0))
            out.append(res.clamp_finite())
    except Exception:
        pass
    return out


def run_one(sched, prog, leaves, symbolic, hyps_fn=None):
    """returns list of problem strings (concrete) or (problems, sym_diffs)"""
    import numpy as np
    from harness.schedules import SCHEDULES
    from lang.build import build
    from monitor import mutation as M
    snaps = []
    for name, arr in leaves.items():
        snaps.append((name, M.snap_sym(arr) if symbolic else M.snap_conc(arr)))
    held = []
    for ch in children(prog):
        try:
            held.append(M.snap_funsor(build(ch, leaves)))
        except Exception:
            pass
    twin = sched.startswith("TWIN:")
    if twin:
        sched = sched[5:]
    with np.errstate(all="ignore"):
        res = SCHEDULES[sched](prog, leaves)
    if twin:    # reachability twin: a deliberate in-place write through the first leaf must be detected
        first = next(iter(leaves.values()))
        flat = first.view(np.ndarray).reshape(-1)
        flat[0] = flat[0] + 1
    held.append(M.snap_funsor(res))
    extra_ops(res)
    for h in list(held[:-1]):
        extra_ops(h["f"])
    try:
        from funsor.terms import Tuple, to_funsor
        fs = [h["f"] for h in held]
        if len(fs) >= 2:
            Tuple(tuple(fs))
            Tuple(tuple(reversed(fs)))
            to_funsor((fs[-1], fs[0]))
    except Exception:
        pass
    problems, symdiffs = [], []
    for name, s in snaps:
        if symbolic:
            d = M.diff_sym(s)
            if d:
                symdiffs.append(("leaf " + name, d))
        else:
            d = M.diff_conc(s)
            if d:
                problems.append("leaf array %s: %s" % (name, d))
    for h in held:
        d = M.diff_funsor(h)
        if d is None:
            continue
        if isinstance(d, tuple):
            symdiffs.append(("held %s" % h["cls"].__name__, d[1]))
        else:
            problems.append("held funsor %s: %s" % (h["cls"].__name__, d))
    return problems, symdiffs


def worker(inst):
    import numpy as np
    from harness.core import conc_leaves, sym_leaves, concretize_leaves
    from lang.prog import IllTyped, show, type_of
    from monitor import mutation as M
    from symx import engine
    from symx.engine import Unsupported
    from symx.symarray import install
    install()
    sched, theme, prog = inst
    if sched.startswith("TWIN:"):
        o = _worker(inst)
        # the twin MUST be reported as a mutation; translate into the vacuity flag of the runner
        return dict(status="ok", prog=o.get("prog"), label="twin", twin="sat" if o["status"] == "violation" else "unsat",
                    detail="reachability twin (deliberate in-place write): " + o["status"], obligations=1, discharged=1)
    return _worker(inst)


def _worker(inst):
    import numpy as np
    from harness.core import conc_leaves, sym_leaves, concretize_leaves
    from lang.prog import IllTyped, show, type_of
    from monitor import mutation as M
    from symx import engine
    from symx.engine import Unsupported
    sched, theme, prog = inst
    out = dict(status="ok", prog=show(prog), label="%s|%s" % (sched, theme), detail="", paths=0, obligations=0, discharged=0, nontrivial=False)
    try:
        type_of(prog)
    except IllTyped as e:
        out.update(status="illtyped", detail=str(e))
        return out
    rng = random.Random(hash(show(prog)) & 0xFFFF)
    # ---- concrete complement: bit-for-bit -----------------------------------------------------------
    cl = conc_leaves(prog, rng)
    engine.reset()
    try:
        problems, _ = run_one(sched, prog, cl, False)
    except Exception as e:  # noqa
        out.update(status="declined", detail="%s: %s" % (type(e).__name__, str(e)[:150]))
        return out
    out["obligations"] += 1
    if problems:
        out.update(status="violation", kind="mutation", detail=problems[0], replay=dict(prog=prog, schedule=sched, leaves={k: v.tolist() for k, v in cl.items()}))
        return out
    out["discharged"] += 1
    # ---- symbolic: cells are terms; a changed term is decided by the solver ------------------------------
    st = {}

    def setup(c):
        st["leaves"] = c.notes_leaves = sym_leaves(prog)

    def body():
        return run_one(sched, prog, st["leaves"], True)
    try:
        paths = engine.explore(body, max_paths=32, setup=setup)
    except engine.PathCapExceeded:
        out.update(status="inconclusive", detail="path cap")
        return out
    out["paths"] = len(paths)
    for pr in paths:
        engine.CUR = pr.ctx
        if pr.exc is not None:
            if isinstance(pr.exc, Unsupported):
                out["notes"] = "symbolic part unsupported: %s" % str(pr.exc)[:80]
                continue
            continue
        problems, symdiffs = pr.value
        out["obligations"] += 1
        if problems:
            out.update(status="violation", kind="mutation", detail=problems[0])
            return out
        ok = True
        for what, d in symdiffs:
            out["nontrivial"] = True
            v, m = M.decide_sym_diffs(d, pr.ctx.hyps())
            if v == "sat":
                # replay on float64 with the model's leaf values
                try:
                    cl2 = concretize_leaves(prog, pr.ctx.notes_leaves, m) if m is not None else cl
                except Unsupported:
                    cl2 = cl
                engine.reset()
                p2, _ = run_one(sched, prog, cl2, False)
                engine.CUR = pr.ctx
                if p2:
                    out.update(status="violation", kind="mutation", detail="%s: %s" % (what, p2[0]), replay=dict(prog=prog, schedule=sched))
                    return out
                out.update(status="inconclusive", detail="symbolic cell of %s changed value but float64 replay shows no mutation" % what)
                ok = False
            elif v == "unknown":
                ok = False
        if ok:
            out["discharged"] += 1
    out["nontrivial"] = True
    return out


def programs(tier, seed):
    from lang import gen
    from checks.c08 import SEMIRINGS, gen_sumproducts
    rng = random.Random(seed)
    out = []
    for theme in ("real", "log", "bool", "int", "pos"):
        d1 = list(gen.depth1(theme))
        rng.shuffle(d1)
        out += [(theme, p) for p in d1[:120 if tier == "quick" else 1000]]
        d2 = list(gen.depth2(theme, rng, per_inner=1 if tier == "quick" else 2))
        rng.shuffle(d2)
        out += [(theme, p) for p in d2[:60 if tier == "quick" else 600]]
    for sr in SEMIRINGS[:4]:
        out += [("%s/%s" % sr[:2], p) for p in gen_sumproducts(rng, 20 if tier == "quick" else 150, sr[0], sr[1], sr[2], 4)]
    out += [("real", p) for p in gen.einsum_progs()] + [("real", p) for p in gen.constant_progs()[::3]]
    return out


def main():
    chk = Check("C20", "model_checking")
    progs = programs(chk.tier, chk.seed)
    rng = random.Random(chk.seed)
    insts = []
    for theme, p in progs:
        for s in (SCHEDS if chk.tier != "quick" else rng.sample(SCHEDS, 2)):
            insts.append((s, theme, p))
    from lang.prog import binary, leaf
    tw = binary("add", leaf("x", (("i", 2), ("j", 3))), leaf("y", (("j", 3),)))
    insts += [("TWIN:immediate", "real", tw), ("TWIN:lazy", "real", tw)]
    chk.map("checks.c20", "worker", insts, chunksize=8)
    # algorithm harnesses (sum-product, Markov, adjoint, Gaussian, sampling, compiler) run with the same monitor
    try:
        from checks import c20_extra
        c20_extra.add(chk)
    except ImportError:
        chk.notes.append("algorithm harnesses not attached")
    chk.bounds = dict(programs="C01/C08 families x schedules; held = every direct sub-term funsor + result; extra ops = align, reduce, subs, to_data, binary, clamp_finite")
    chk.assumptions = ["mutation of module-level tables/caches is outside the claim", "object arrays may take different numpy code paths than float arrays: the float64 run is the complement"]
    chk.floor = 300
    chk.finish(rule="one instance per (program, schedule): concrete bit-for-bit snapshot + symbolic cell-identity snapshot (changed terms decided by z3); distinct = printed program + schedule",
               trusted_base=["z3 5.1", "symx", "monitor.mutation"])


if __name__ == "__main__":
    main()
