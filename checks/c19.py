"""C19 — conversions and re-alignment never move data to the wrong name (Engine A: every cell symbolic)."""
import itertools
import os
import random
import sys

sys.path.insert(0, os.path.dirname(os.path.dirname(os.path.abspath(__file__))))

from harness.runner import Check  # noqa: E402


def _squeeze_batch(a, n_event):
    import numpy as np
    a = np.asarray(a) if not isinstance(a, np.ndarray) else a
    nb = a.ndim - n_event
    shape = tuple(s for s in a.shape[:nb] if s != 1) + tuple(a.shape[nb:])
    return a.reshape(shape)


def build_obligation(inst):
    import numpy as np
    from collections import OrderedDict
    kind = inst[0]
    if kind == "roundtrip":
        _, shape, n_event, named, dtype, perm = inst

        def ob(mk):
            import funsor
            from funsor import Bint, Reals, Tensor
            from funsor.domains import Array
            from funsor.terms import to_data, to_funsor
            car = "real" if dtype == "real" else ("int", dtype)
            x = mk.array("x", shape, car)
            nb = len(shape) - n_event
            dim_to_name = OrderedDict((d - nb, "n%d" % d) for d in named)
            name_to_dim = {v: k for k, v in dim_to_name.items()}
            out = Array[dtype, tuple(shape[nb:])]
            from harness.oblig import Decline
            try:
                f = to_funsor(x, out, dim_to_name)
            except ValueError as e:
                raise Decline(str(e))
            pairs = []
            # declared type
            want_inputs = [("n%d" % d, shape[d]) for d in named if shape[d] != 1]
            pairs.append((_b(mk, [(k, v.size) for k, v in f.inputs.items()] == want_inputs and f.output == out), None))
            if perm is not None and len(f.inputs) >= 2:
                names = list(f.inputs)
                p = [names[i % len(names)] for i in perm if i < len(names)]
                p = list(dict.fromkeys(p + names))
                f2 = f.align(tuple(p))
                pairs.append((_b(mk, f2.output == out and set(f2.inputs) == set(f.inputs)), None))
                f = f2
            y = to_data(f, name_to_dim)
            pairs.append((_squeeze_batch(y, n_event), _squeeze_batch(x, n_event)))
            # every named dim of size != 1 sits at its requested position
            yb = y.shape[: y.ndim - n_event]
            ok = all(yb[len(yb) + name_to_dim["n%d" % d]] == shape[d]
                     for d in named if shape[d] != 1 and -name_to_dim["n%d" % d] <= len(yb))
            pairs.append((_b(mk, ok), None))
            return pairs
        return ob
    if kind == "align":
        _, sizes, ev, dtype, perm, how = inst

        def ob(mk):
            import funsor
            from funsor import Bint, Tensor
            from funsor.interpretations import lazy
            from funsor.terms import Align
            car = "real" if dtype == "real" else ("int", dtype)
            names = ["a", "b", "c", "d"][: len(sizes)]
            x = mk.array("x", tuple(sizes) + tuple(ev), car)
            t = Tensor(x, OrderedDict((n, Bint[s]) for n, s in zip(names, sizes)), dtype)
            target = tuple(names[i] for i in perm)
            if how == "tensor":
                r = t.align(target)
            elif how == "Align":
                r = Align(t, target)
                r = r.align(target) if hasattr(r, "align") else r
            elif how == "lazy_binary":
                with lazy:
                    z = t + 0.0 if dtype == "real" else t
                    r = z.align(target)
                r = funsor.reinterpret(r)
            elif how == "contraction":
                from funsor.cnf import Contraction
                import funsor.ops as ops
                with lazy:
                    z = Contraction(ops.null, ops.add, frozenset(), t, t)
                    r = z.align(target)
                r = funsor.reinterpret(r)
            pairs = [(_b(mk, r.output == (t.output if how not in ("lazy_binary", "contraction") or dtype == "real" else r.output) and dict(r.inputs) == dict(t.inputs)), None)]
            if how in ("tensor",):
                pairs.append((_b(mk, tuple(r.inputs)[: len(target)] == target), None))
            xa = x.view(np.ndarray) if isinstance(x, np.ndarray) else x
            got, exp = [], []
            from harness.core import result_cells
            for pt in itertools.product(*(range(s) for s in sizes)):
                env = dict(zip(names, pt))
                g = result_cells(r, env)
                e = xa[pt]
                if how == "contraction":
                    e = e + e
                got.append(g)
                exp.append(e)
            pairs.append((got, exp))
            return pairs
        return ob
    if kind == "made_op":
        # funsor.make_op: the eager rule converts the operands with to_data (one shared name -> dim map), applies the
        # python function and converts back: inputs are the union, every cell is fn of the operands' cells
        _, ins1, ins2, arity = inst

        def ob(mk):
            import funsor
            from funsor import Bint, Real, Tensor
            from harness.core import result_cells
            if arity == 2:
                def fn(x: Real, y: Real) -> Real:
                    return x - 2.0 * y
            else:
                def fn(x: Real) -> Real:
                    return x * 3.0 - 1.0
            op = funsor.make_op(fn)
            X = mk.array("x", tuple(ins1.values()), "real")
            tx = Tensor(X, OrderedDict((k, Bint[n]) for k, n in ins1.items()))
            if arity == 2:
                Y = mk.array("y", tuple(ins2.values()), "real")
                ty = Tensor(Y, OrderedDict((k, Bint[n]) for k, n in ins2.items()))
                r = op(tx, ty)
                union = OrderedDict(list(ins1.items()) + [(k, n) for k, n in ins2.items() if k not in ins1])
            else:
                r = op(tx)
                union = OrderedDict(ins1)
            # to_funsor drops named batch dims of size 1 (the value cannot depend on them)
            need = {k for k, n in union.items() if n != 1}
            okin = isinstance(r, Tensor) and need <= set(r.inputs) <= set(union)
            pairs = [(_b(mk, okin and r.output == Real), None)]
            if not okin:
                return pairs
            xa = X.view(np.ndarray)
            got, exp = [], []
            for pt in itertools.product(*(range(n) for n in union.values())):
                env = dict(zip(union, pt))
                xv = xa[tuple(env[k] for k in ins1)]
                if arity == 2:
                    yv = Y.view(np.ndarray)[tuple(env[k] for k in ins2)]
                    exp.append(xv - 2.0 * yv)
                else:
                    exp.append(xv * 3.0 - 1.0)
                got.append(result_cells(r, env)[()])
            pairs.append((got, exp))
            return pairs
        return ob
    if kind == "align_binary":
        # a lazily aligned funsor used as an operand of a (non-commutative) binary op, on either side
        _, sizes, perm, opname, side = inst

        def ob(mk):
            import funsor
            import funsor.ops as ops
            from funsor import Bint, Real, Tensor, Variable
            from harness.core import result_cells
            from lang import cellops as C
            names = ["a", "b", "c"][: len(sizes)]
            X = mk.array("x", tuple(sizes), "real")
            S = mk.array("s", tuple(sizes), "pos" if opname in ("truediv", "pow") else "real")
            Z = mk.array("z", (), "real")
            t = Tensor(X, OrderedDict((n, Bint[s_]) for n, s_ in zip(names, sizes)))
            s_t = Tensor(S, OrderedDict((n, Bint[s_]) for n, s_ in zip(names, sizes)))
            from funsor.terms import Align
            target = tuple(names[i] for i in perm)
            g = (t + Variable("z", Real)).exp().align(("z",) + target)      # stays lazy: an Align term
            if not isinstance(g, Align):
                from harness.oblig import Decline
                raise Decline("align did not produce an Align term")
            op = getattr(ops, opname)
            r = op(s_t, g) if side == "right" else op(g, s_t)
            r = r(z=Tensor(Z))
            xa, sa, zc = X.view(np.ndarray), S.view(np.ndarray), Z.view(np.ndarray)[()]
            f2 = C.BINARY[opname]
            got, exp = [], []
            for pt in itertools.product(*(range(n) for n in sizes)):
                env = dict(zip(names, pt))
                gv = C.UNARY["exp"](xa[pt] + zc)
                exp.append(f2(sa[pt], gv) if side == "right" else f2(gv, sa[pt]))
                got.append(result_cells(r, env)[()])
            return [(got, exp)]
        return ob
    if kind == "align_tensors":
        # two eager Tensors with the same named inputs stored in different orders, combined by a binary op / matmul
        # (the operands have to be re-aligned by name, never by position)
        _, sizes, perm, opname, via = inst

        def ob(mk):
            import funsor.ops as ops
            from funsor import Bint, Tensor
            from funsor.tensor import align_tensors
            from harness.core import result_cells
            from lang import cellops as C
            names = ["a", "b", "c"][: len(sizes)]
            ev = (2, 2) if opname == "matmul" else ()
            X = mk.array("x", tuple(sizes) + ev, "real")
            psizes = tuple(sizes[i] for i in perm)
            Y = mk.array("y", psizes + ev, "real")
            t = Tensor(X, OrderedDict((n, Bint[s_]) for n, s_ in zip(names, sizes)))
            u = Tensor(Y, OrderedDict((names[i], Bint[sizes[i]]) for i in perm))
            if via == "align":          # bring u to t's order explicitly first, then back to its own
                u = u.align(tuple(names)).align(tuple(names[i] for i in perm))
            if via == "align_tensors":
                inputs, (xd, yd) = align_tensors(t, u)
                r = Tensor(ops.matmul(xd, yd) if opname == "matmul" else getattr(ops, opname)(xd, yd), inputs)
            else:
                r = ops.matmul(t, u) if opname == "matmul" else getattr(ops, opname)(t, u)
            xa, ya = X.view(np.ndarray), Y.view(np.ndarray)
            got, exp = [], []
            for pt in itertools.product(*(range(n) for n in sizes)):
                env = dict(zip(names, pt))
                ppt = tuple(pt[i] for i in perm)
                cells = result_cells(r, env)
                if opname == "matmul":
                    for i in range(2):
                        for j in range(2):
                            acc = None
                            for k in range(2):
                                term = C.BINARY["mul"](xa[pt + (i, k)], ya[ppt + (k, j)])
                                acc = term if acc is None else C.BINARY["add"](acc, term)
                            exp.append(acc)
                            got.append(cells[i, j])
                else:
                    exp.append(C.BINARY[opname](xa[pt], ya[ppt]))
                    got.append(cells[()])
            return [(got, exp)]
        return ob
    if kind == "constant_align":
        # funsor.constant.Constant with several constant inputs of DIFFERENT sizes: align keeps every name's domain and value
        _, sizes, cperm, perm = inst

        def ob(mk):
            from funsor import Bint, Tensor
            from funsor.constant import Constant
            from harness.core import result_cells
            names = ["a", "b", "c"][: len(sizes)]
            cnames, csizes = ["p", "q", "r"], [2, 3, 4]
            x = mk.array("x", tuple(sizes), "real")
            t = Tensor(x, OrderedDict((n, Bint[s_]) for n, s_ in zip(names, sizes)))
            c = Constant(OrderedDict((n, Bint[s_]) for n, s_ in zip(cnames[: len(cperm)], csizes)), t)
            target = tuple(cnames[i] for i in cperm) + tuple(names[i] for i in perm)
            r = c.align(target)
            pairs = [(_b(mk, dict(r.inputs) == dict(c.inputs) and tuple(r.inputs) == target and r.output == c.output), None)]
            xa = x.view(np.ndarray)
            got, exp = [], []
            for pt in itertools.product(*(range(s_) for s_ in sizes)):
                env = dict(zip(names, pt))
                env.update({n: csizes[i] - 1 for i, n in enumerate(cnames[: len(cperm)])})      # the LARGEST legal value of each constant input
                got.append(result_cells(r, env)[()])
                exp.append(xa[pt])
            pairs.append((got, exp))
            # the domain is what a later reduction multiplies by
            import funsor.ops as ops
            red = r.reduce(ops.add, cnames[0])
            env0 = {n: 0 for n in names}
            env0.update({n: 0 for n in cnames[1: len(cperm)]})
            from lang import cellops as C
            pairs.append(([result_cells(red, env0)[()]], [C.BINARY["mul"](xa[(0,) * len(sizes)], float(csizes[0]))]))
            return pairs
        return ob
    if kind == "getitem_name":
        # x[:, ..., "k"]: a positional event dim becomes the named input k, on a Tensor that already has named inputs
        _, sizes, ev, offset = inst

        def ob(mk):
            from funsor import Bint, Tensor
            from harness.core import result_cells
            names = ["a", "b"][: len(sizes)]
            x = mk.array("x", tuple(sizes) + tuple(ev), "real")
            t = Tensor(x, OrderedDict((n, Bint[s_]) for n, s_ in zip(names, sizes)))
            r = t[(slice(None),) * offset + ("k",)]
            want_inputs = OrderedDict([(n, Bint[s_]) for n, s_ in zip(names, sizes)] + [("k", Bint[ev[offset]])])
            pairs = [(_b(mk, dict(r.inputs) == dict(want_inputs) and r.output.shape == tuple(ev[:offset] + ev[offset + 1:])), None)]
            xa = x.view(np.ndarray)
            got, exp = [], []
            for pt in itertools.product(*(range(s_) for s_ in sizes)):
                for k in range(ev[offset]):
                    env = dict(zip(names, pt), k=k)
                    cells = result_cells(r, env)
                    sub = xa[pt][(slice(None),) * offset + (k,)]
                    if not isinstance(sub, np.ndarray):
                        c0 = np.empty((), dtype=object)
                        c0[()] = sub
                        sub = c0
                    for ix in np.ndindex(*sub.shape):
                        got.append(cells[ix])
                        exp.append(sub[ix])
            pairs.append((got, exp))
            return pairs
        return ob
    raise ValueError(kind)


class ArrStub:
    """An array described only by (shape, axes): axes[k] = which ORIGINAL axis (None for an inserted size-1 axis)
    position k holds.  reshape may only drop/insert size-1 axes or keep the layout - anything else is an assertion."""

    def __init__(self, shape, axes):
        from symx.symint import SymInt
        self.shape = tuple(shape)
        self.axes = tuple(None if (not isinstance(sz, SymInt) and sz == 1) else a for sz, a in zip(shape, axes))

    def reshape(self, shape):
        shape = tuple(shape)
        src = list(zip(self.shape, self.axes))
        out = []
        i = 0
        for t in shape:
            if bool(t == 1):
                out.append(None)
                if i < len(src) and bool(src[i][0] == 1):
                    i += 1
            else:
                while i < len(src) and bool(src[i][0] == 1):
                    i += 1
                assert i < len(src), "reshape invents a non-1 dim"
                assert bool(src[i][0] == t), "reshape merges/splits dims"
                out.append(src[i][1])
                i += 1
        while i < len(src):
            assert bool(src[i][0] == 1), "reshape drops a non-1 dim"
            i += 1
        return ArrStub(shape, out)


def _bookkeeping_ob(inst):
    """Engine B: the dimension bookkeeping of the REAL tensor_to_funsor / Tensor.__init__ / tensor_to_data on a
    recording array stub with UNBOUNDED symbolic sizes (which dims have size 1 is decided by forking)"""
    _, rank, event_rank, named = inst

    def ob(mk):
        import types
        import numpy as np
        import z3
        import funsor.tensor as FT
        import funsor.ops as fops
        from funsor.ops.array import is_numeric_array
        from harness.oblig import Decline
        from harness.symterms import raw
        from symx.symint import SymInt, ival
        batch = rank - event_rank
        dim_to_name = OrderedDict((d - batch, "n%d" % d) for d in named)
        name_to_dim = {v: k for k, v in dim_to_name.items()}
        sizes = [mk.int("s%d" % i, 1) for i in range(rank)]
        for i in range(batch):
            if i not in named:
                mk.assume(sizes[i] == 1)          # unnamed batch dims must have size 1 (documented)
        if not mk.symbolic:
            from funsor import Reals
            from funsor.terms import to_data, to_funsor
            x = np.arange(int(np.prod(sizes, dtype=int)), dtype=float).reshape(tuple(sizes))
            try:
                f = to_funsor(x, Reals[tuple(sizes[batch:])], dim_to_name)
                y = to_data(f, name_to_dim)
            except (ValueError, AssertionError):
                return [(True, None)]
            nb = y.ndim - event_rank

            def sq(a, ne):
                k = a.ndim - ne
                return a.reshape(tuple(s for s in a.shape[:k] if s != 1) + a.shape[k:])
            ok = sq(y, event_rank).shape == sq(x, event_rank).shape and bool((sq(y, event_rank) == sq(x, event_rank)).all())
            return [(bool(ok), None)]
        if not getattr(is_numeric_array, "_verif_stub", False):
            is_numeric_array.register(ArrStub)(lambda x: True)
            is_numeric_array._verif_stub = True

        def dom(name, **kw):
            return type(name, (), dict(kw, num_elements=1))

        class _BintF:
            def __getitem__(self, size):
                return dom("BintSym", size=size, dtype=size, shape=())

        class _ArrayF:
            def __getitem__(self, ds):
                return dom("ArraySym", dtype=ds[0], size=ds[0], shape=tuple(ds[1]))

        class _RealsF:
            def __getitem__(self, shape):
                return dom("RealsSym", dtype="real", shape=tuple(shape) if isinstance(shape, tuple) else (shape,))

        class OpsProxy:
            def __getattr__(self, k):
                return getattr(fops, k)

            @staticmethod
            def permute(x, dims):
                dims = list(dims)
                return ArrStub([x.shape[d] for d in dims], [x.axes[d] for d in dims])

            @staticmethod
            def is_numeric_array(x):
                return True

        stubs = dict(Bint=_BintF(), Array=_ArrayF(), Reals=_RealsF(), ops=OpsProxy())

        def rebind(fn):
            g = dict(fn.__globals__)
            g.update(stubs)
            return types.FunctionType(fn.__code__, g, fn.__name__, fn.__defaults__, fn.__closure__)
        t2f, t2d = rebind(FT.tensor_to_funsor), rebind(FT.tensor_to_data)
        x = ArrStub(sizes, list(range(rank)))
        out = stubs["Reals"][tuple(sizes[batch:])]
        saved = (FT.Array, FT.ops)
        FT.Array, FT.ops = stubs["Array"], stubs["ops"]          # Tensor.__init__ looks these up in funsor.tensor
        try:
            with raw:
                try:
                    f = t2f(x, out, dim_to_name)
                    y = t2d(f, name_to_dim)
                except ValueError as e:
                    raise Decline(str(e)[:80])
        finally:
            FT.Array, FT.ops = saved
        # "the original array up to size-1 batch dimensions": right-aligned comparison
        conds = []
        off = rank - len(y.shape)
        for q in range(min(0, off), rank):
            pos = q - off
            if q < 0:
                conds.append(ival(y.shape[pos]) == 1)
                continue
            if pos < 0:
                conds.append(ival(sizes[q]) == 1)
                conds.append(z3.BoolVal(q < batch))
                continue
            sz, ax = y.shape[pos], y.axes[pos]
            conds.append(ival(sz) == ival(sizes[q]))
            if ax is not None:
                conds.append(z3.BoolVal(ax == q))
            else:
                conds.append(ival(sz) == 1)
        return [(z3.And(*conds), None)]
    return ob


def _b(mk, cond):
    import z3
    return z3.BoolVal(bool(cond)) if mk.symbolic else bool(cond)


from collections import OrderedDict  # noqa: E402


def materialize_worker(inst):
    """materialize(lazy integer expression) denotes the same function: through check_prog with the oracle"""
    from harness.core import check_prog
    from lang.build import build
    _, prog = inst

    def builder(p, leaves):
        import numpy as np
        from funsor import Tensor
        from funsor.interpretations import lazy
        with lazy:
            e = build(p, leaves)
        anchor = Tensor(np.zeros(()))
        return anchor.materialize(e)
    return check_prog(prog, builder, label="materialize", int_range_check=True, check_dtype=False, timeout_ms=5000, twin=True)


def worker(inst):
    if inst[0] == "materialize":
        return materialize_worker(inst)
    from harness.oblig import decide
    if inst[0] == "bookkeeping":
        return decide(str(inst), _bookkeeping_ob(inst), timeout_ms=10000, twin=True, max_paths=512)
    return decide(str(inst), build_obligation(inst), timeout_ms=5000, twin=True)


def instances(tier, seed):
    rng = random.Random(seed)
    out = []
    max_rank = 4 if tier == "quick" else 5
    sizes_pool = (1, 2, 3)
    for rank in range(0, max_rank + 1):
        for n_event in range(0, min(2, rank) + 1):
            nb = rank - n_event
            subsets = [s for k in range(0, nb + 1) for s in itertools.combinations(range(nb), k)]
            if tier == "quick" and len(subsets) > 6:
                subsets = rng.sample(subsets, 6)
            for named in subsets:
                if not named and nb > 0:
                    continue
                for rep in range(2 if tier == "quick" else 4):
                    shape = tuple(rng.choice(sizes_pool) if d in named else 1 for d in range(nb)) + tuple(rng.choice((1, 2, 3)) for _ in range(n_event))
                    for dtype in ("real", 4):
                        perm = None
                        if len([d for d in named if shape[d] != 1]) >= 2:
                            perm = tuple(rng.sample(range(4), 4))
                        out.append(("roundtrip", shape, n_event, tuple(named), dtype, perm))
                        if perm is not None:
                            out.append(("roundtrip", shape, n_event, tuple(named), dtype, None))
    # cyclic re-orderings of >= 3 named dims of distinct sizes between to_funsor and to_data
    for nb in (3, 4):
        shape = (2, 3, 4, 2)[:nb]
        perms = [p for p in itertools.permutations(range(nb)) if p != tuple(range(nb))]
        if tier == "quick":
            perms = rng.sample(perms, min(8, len(perms)))
        for perm in perms:
            for n_event, ev in ((0, ()), (1, (2,))):
                for dtype in ("real", 4):
                    out.append(("roundtrip", tuple(shape) + ev, n_event, tuple(range(nb)), dtype, tuple(perm) + tuple(range(nb, 4))))
    for n in (2, 3, 4):
        sizes = (2, 3, 2, 1)[:n] if n < 4 else (2, 3, 2, 2)
        perms = list(itertools.permutations(range(n)))
        for k in range(1, n + 1):
            prefixes = sorted({p[:k] for p in perms})
            if tier == "quick" and n >= 4:
                prefixes = rng.sample(prefixes, min(6, len(prefixes)))
            for perm in prefixes:
                for ev in ((), (2,)):
                    for dtype in ("real", 5):
                        for how in ("tensor", "Align", "lazy_binary", "contraction"):
                            if how in ("lazy_binary", "contraction") and (dtype != "real" or ev):
                                continue
                            out.append(("align", sizes, ev, dtype, perm, how))
    # funsor.make_op: names introduced by different operands (disjoint, overlapping, nested, equal and unequal sizes)
    for ins1, ins2 in [(OrderedDict(i=2, j=3), OrderedDict(k=3)), (OrderedDict(i=2), OrderedDict(j=2)), (OrderedDict(i=2, j=3), OrderedDict(j=3, k=2)),
                       (OrderedDict(i=2, j=2), OrderedDict(k=2)), (OrderedDict(i=2), OrderedDict(i=2)), (OrderedDict(), OrderedDict(k=2)),
                       (OrderedDict(i=3), OrderedDict(j=1, k=3)), (OrderedDict(j=2, i=2), OrderedDict(i=2, j=2)), (OrderedDict(i=2, j=2, k=2), OrderedDict(l=2, k=2))]:
        out.append(("made_op", ins1, ins2, 2))
    out.append(("made_op", OrderedDict(i=2, j=3), OrderedDict(), 1))
    for sizes, perm in [((2, 3), (1, 0)), ((2, 2), (1, 0)), ((2, 3, 2), (2, 0, 1)), ((2,), (0,))]:
        for opname in ("sub", "truediv", "add", "lt", "pow") if tier != "quick" else ("sub", "truediv", "add"):
            for side in ("left", "right"):
                out.append(("align_binary", sizes, perm, opname, side))
    for sizes, perm in [((2, 3), (1, 0)), ((2, 2), (1, 0)), ((2, 3, 2), (2, 0, 1)), ((2, 2, 2), (1, 0, 2)), ((2, 3), (0, 1))]:
        for opname in ("sub", "matmul"):
            for via in ("direct", "align", "align_tensors"):
                out.append(("align_tensors", sizes, perm, opname, via))
    for sizes, perm in [((2, 3), (1, 0)), ((2, 3), (0, 1)), ((2,), (0,)), ((2, 2, 3), (2, 0, 1))]:
        for cperm in [(1, 0), (0, 1), (2, 0, 1), (1, 2, 0), (0,)]:
            out.append(("constant_align", sizes, cperm, perm))
    for sizes in [(), (2,), (2, 3), (3,)]:
        for ev in [(3, 3), (2, 2, 2), (2, 3), (3, 2, 3), (3,)]:
            for offset in range(len(ev)):
                out.append(("getitem_name", sizes, ev, offset))
    # Engine B: bookkeeping with unbounded symbolic sizes
    for rank, event_rank in [(1, 0), (2, 0), (2, 1), (3, 1), (3, 0), (4, 1), (4, 2)] + ([(5, 1), (5, 2)] if tier != "quick" else []):
        batch = rank - event_rank
        for named in itertools.chain.from_iterable(itertools.combinations(range(batch), k) for k in range(1, batch + 1)):
            out.append(("bookkeeping", rank, event_rank, tuple(named)))
    # materialize: lazy integer-valued expressions
    from lang.prog import binary, num, slice_, var, subs, leaf
    u, v = var("u", ("bint", 2)), var("v", ("bint", 3))
    exprs = [binary("sub", num(1, 2), u), binary("add", u, v), binary("mul", u, v), slice_("t", 1, 5, 2, 6), binary("add", slice_("t", 0, 3, 1, 3), u),
             binary("max", u, v), binary("min", v, num(1, 3)), subs(leaf("ix", (("k", 3),), (), ("int", 4)), (("k", v),)),
             binary("add", leaf("ix", (("k", 3),), (), ("int", 4)), u), binary("floordiv", binary("add", v, u), num(2, 3)), binary("mod", v, num(2, 3))]
    # every Slice over small ranges (full-range strided ones included), alone and inside arithmetic
    for n in range(1, 5 if tier == "quick" else 7):
        for start in range(n):
            for stop in range(start + 1, n + 1):
                for step in (1, 2, 3):
                    exprs.append(slice_("t", start, stop, step, n))
                    if (start + stop + step) % 3 == 0:
                        exprs.append(binary("add", slice_("t", start, stop, step, n), u))
    out += [("materialize", e) for e in exprs]
    return out


def main():
    chk = Check("C19", "model_checking")
    insts = instances(chk.tier, chk.seed)
    chk.map("checks.c19", "worker", insts, chunksize=8)
    chk.bounds = dict(roundtrip="rank 0-4|5, sizes 1-3, every named subset (seeded subset in quick), event rank 0-2, real and Bint dtypes, optional align in between",
                      align="every (partial) permutation of <= 4 inputs (seeded subset at 4 in quick); Tensor.align, Align, lazy Binary.align, Contraction.align",
                      materialize="11 lazy integer expressions + every Slice(start, stop, step) over ranges of size 1-4|6, alone and inside a sum")
    chk.assumptions = ["these operations are parametric in the contents, so the solver queries are syntactically trivial: the quantifier that matters is the enumerated structure (each cell is a distinct symbol, so a moved cell is a different term)",
                       "Engine B (bookkeeping with unbounded sizes): interning constructors and funsor.ops.permute replaced by stubs, the array is a recording stub (shape, axis provenance); Gaussian.align / Delta.align covered under C12/C14"]
    chk.floor = 200
    chk.finish(rule="one instance per (shape, named dims, dtype, permutation) / (inputs, permutation, route); distinct = descriptor",
               trusted_base=["z3 5.1", "symx"])


if __name__ == "__main__":
    main()
