"""C14 — point masses and samples: Delta semantics and mass-preserving Tensor sampling (Engine A, restricted).

The RNG is a nondeterministic stub: np.random.rand returns fresh symbolic reals constrained only by the documented
contract 0 <= r < 1, so every obligation is decided for EVERY possible draw."""
import itertools
import os
import random
import sys
from collections import OrderedDict

sys.path.insert(0, os.path.dirname(os.path.dirname(os.path.abspath(__file__))))

from harness.runner import Check  # noqa: E402


class _RandProxy:
    def __init__(self, mk, real_np):
        self.mk, self._np, self.n = mk, real_np, 0
        self.made = []

    def rand(self, *shape):
        self.n += 1
        a = self.mk.array("rand%d" % self.n, tuple(shape), "real")
        import numpy as np
        from symx.symarray import as_obj
        for c in as_obj(a).ravel():
            self.mk.assume((c >= 0) & (c < 1) if not self.mk.symbolic else _and(c >= 0, c < 1))
        self.made.append(a)
        return a

    def __getattr__(self, n):
        return getattr(self._np.random, n)


def _and(a, b):
    import z3
    from symx.sv import SV
    return SV("bool", z3.And(a.l, b.l))


class _NpWithRandom:
    def __init__(self, real_np, rnd):
        object.__setattr__(self, "_np", real_np)
        object.__setattr__(self, "random", rnd)

    def __getattr__(self, n):
        return getattr(self._np, n)


def _cells(a):
    from symx.symarray import as_obj
    return as_obj(a)


def build_obligation(inst):
    kind = inst[0]

    def ob(mk):
        import numpy as np
        import z3
        import funsor
        import funsor.ops as ops
        import funsor.tensor as FT
        from funsor import Bint, Real, Reals, Tensor, Variable
        from funsor.delta import Delta
        from funsor.integrate import Integrate
        from funsor.interpretations import lazy
        from harness.core import result_cells
        from harness.oblig import Decline
        from lang import cellops as C
        if kind == "delta_eval":
            # Delta(v, p, ld)(v=x) == ld if x == p else -inf   (x symbolic: both cases in one query)
            _, batch, shape = inst
            bsh = tuple(batch.values())
            P = mk.array("p", bsh + shape, "real")
            LD = mk.array("ld", bsh, "real")
            X = mk.array("x", shape, "real")
            inputs = OrderedDict((k, Bint[n]) for k, n in batch.items())
            d = Delta("v", Tensor(P, inputs), Tensor(LD, inputs))
            r = d(v=Tensor(X))
            got, exp = [], []
            Pc, Lc, Xc = _cells(P), _cells(LD), _cells(X)
            for b in itertools.product(*(range(n) for n in batch.values())):
                got.append(result_cells(r, dict(zip(batch, b)))[()])
                eq = None
                for idx in np.ndindex(*shape):
                    c = Xc[idx] == Pc[b + idx]
                    eq = c if eq is None else C.c_and(eq, c)
                exp.append(C.c_where(eq, Lc[b], -float("inf")) if eq is not None else Lc[b])
            return [(got, exp)]
        if kind == "delta_eval_ld":
            # the log-density has a batch input that the point does not have: the Delta must declare it
            _, shape = inst
            P = mk.array("p", shape, "real")
            LD = mk.array("ld", (2,), "real")
            X = mk.array("x", shape, "real")
            d = Delta("v", Tensor(P), Tensor(LD, OrderedDict(b=Bint[2])))
            import z3
            side = set(d.inputs) == {"v", "b"}
            pairs = [(z3.BoolVal(side) if mk.symbolic else side, None)]
            r = d(v=Tensor(X))
            got, exp = [], []
            Pc, Lc, Xc = _cells(P), _cells(LD), _cells(X)
            for b in range(2):
                got.append(result_cells(r, dict(b=b))[()])
                eq = None
                for idx in np.ndindex(*shape):
                    c = Xc[idx] == Pc[idx]
                    eq = c if eq is None else C.c_and(eq, c)
                exp.append(C.c_where(eq, Lc[b], -float("inf")) if eq is not None else Lc[b])
            pairs.append((got, exp))
            return pairs
        if kind == "delta_independent":
            # Independent(Delta) over a plate: sum_i Delta(x_i = x[i]) - the log-density is counted once per plate
            # element, whether or not it mentions the plate (round-6 seeded change)
            _, n, ld_on_plate = inst
            from funsor.terms import Independent
            P = mk.array("p", (n,), "real")
            LD = mk.array("ld", (n,) if ld_on_plate else (), "real")
            X = mk.array("x", (n,), "real")
            plate = OrderedDict(i=Bint[n])
            d = Delta("x_i", Tensor(P, plate), Tensor(LD, plate) if ld_on_plate else Tensor(LD))
            r = Independent(d, "x", "i", "x_i")
            import z3
            side = set(r.inputs) == {"x"}
            pairs = [(z3.BoolVal(side) if mk.symbolic else side, None)]
            r = r(x=Tensor(X))
            Pc, Lc, Xc = _cells(P), _cells(LD), _cells(X)
            eq = None
            for k in range(n):
                c = Xc[k] == Pc[k]
                eq = c if eq is None else C.c_and(eq, c)
            tot = C.fold("add", [Lc[k] if ld_on_plate else Lc[()] for k in range(n)])
            pairs.append(([result_cells(r, {})[()]], [C.c_where(eq, tot, -float("inf"))]))
            return pairs
        if kind in ("delta_reduce", "delta_integrate"):
            # unit-mass Delta: (Delta + f).reduce(logaddexp, v) == f(v=p) == Integrate(Delta, f, v)
            _, batch, point_kind = inst
            bsh = tuple(batch.values())
            inputs = OrderedDict((k, Bint[n]) for k, n in batch.items())
            A = mk.array("a", bsh, "real")
            Bv = mk.array("b", bsh, "real")
            v = Variable("v", Real)
            f = Tensor(A, inputs) * v * v + Tensor(Bv, inputs)
            if point_kind == "tensor":
                P = mk.array("p", bsh, "real")
                point = Tensor(P, inputs)
                pc = lambda b: _cells(P)[b]
            elif point_kind == "number":
                point = funsor.Number(1.5)
                pc = lambda b: 1.5
            else:   # a lazy expression point, bound afterwards
                Q = mk.array("q", (), "real")
                P = mk.array("p", bsh, "real")
                with lazy:
                    point = Tensor(P, inputs) + Variable("q", Real)
                pc = lambda b: _cells(P)[b] + _cells(Q)[()]
            d = Delta("v", point)
            try:
                if kind == "delta_reduce":
                    r = (d + f).reduce(ops.logaddexp, "v")
                else:
                    r = Integrate(d, f, "v")
                if point_kind == "lazy":
                    r = r(q=Tensor(Q))
            except (NotImplementedError, ValueError) as e:
                raise Decline(str(e)[:80])
            got, exp = [], []
            Ac, Bc = _cells(A), _cells(Bv)
            for b in itertools.product(*(range(n) for n in batch.values())):
                got.append(result_cells(r, dict(zip(batch, b)))[()])
                p = pc(b)
                exp.append(Ac[b] * p * p + Bc[b])
            return [(got, exp)]
        if kind == "delta_integrate_joint":
            # joint unit-mass Delta over (x, y); integrating a SUBSET of its variables evaluates the integrand there and
            # leaves a point mass over the rest:  Integrate(d, f, {x})(y=Y) == f(px, Y) * [Y == py]
            _, bx, by, subset = inst
            inx = OrderedDict((k, Bint[n]) for k, n in bx.items())
            iny = OrderedDict((k, Bint[n]) for k, n in by.items())
            P = mk.array("px", tuple(bx.values()), "real")
            Q = mk.array("py", tuple(by.values()), "real")
            A = mk.array("a", (), "real")
            Bv = mk.array("b", (), "real")
            Y = mk.array("yv", (), "real")
            X = mk.array("xv", (), "real")
            x, y = Variable("x", Real), Variable("y", Real)
            d = Delta("x", Tensor(P, inx)) + Delta("y", Tensor(Q, iny))
            f = Tensor(A) * x * y + Tensor(Bv) * x
            try:
                r = Integrate(d, f, frozenset(Variable(n, Real) for n in subset))
            except (NotImplementedError, ValueError) as e:
                raise Decline(str(e)[:80])
            rest = [n for n in ("x", "y") if n not in subset]
            pairs = [(_b(mk, set(r.inputs) == set(bx) | set(by) | set(rest)), None)]
            bind = {n: Tensor({"x": X, "y": Y}[n]) for n in rest}
            r = r(**bind) if bind else r
            allb = OrderedDict(list(bx.items()) + [(k, n) for k, n in by.items() if k not in bx])
            got, exp = [], []
            Pc, Qc, Ac, Bc, Yc, Xc = _cells(P), _cells(Q), _cells(A)[()], _cells(Bv)[()], _cells(Y)[()], _cells(X)[()]
            for b in itertools.product(*(range(n) for n in allb.values())):
                env = dict(zip(allb, b))
                pxv = Pc[tuple(env[k] for k in bx)]
                pyv = Qc[tuple(env[k] for k in by)]
                got.append(result_cells(r, env)[()])
                if "x" in subset and "y" in subset:
                    exp.append(Ac * pxv * pyv + Bc * pxv)
                elif "x" in subset:
                    exp.append(C.c_where(Yc == pyv, Ac * pxv * Yc + Bc * pxv, 0.0))
                else:
                    exp.append(C.c_where(Xc == pxv, Ac * Xc * pyv + Bc * Xc, 0.0))
            pairs.append((got, exp))
            return pairs
        if kind == "sample":
            _, sizes, sampled, sample_inputs, part = inst
            names = list(sizes)
            L = mk.array("logits", tuple(sizes.values()), "log")
            Lc = _cells(L)
            inputs = OrderedDict((k, Bint[n]) for k, n in sizes.items())
            x = Tensor(L, inputs)
            batch = OrderedDict((k, n) for k, n in sizes.items() if k not in sampled)
            # positive row mass (the documented precondition of sampling a distribution)
            for b in itertools.product(*(range(n) for n in batch.values())):
                env = dict(zip(batch, b))
                tot = None
                for e in itertools.product(*(range(sizes[k]) for k in sampled)):
                    env2 = dict(env)
                    env2.update(zip(sampled, e))
                    c = Lc[tuple(env2[k] for k in names)]
                    tot = c if tot is None else C.c_logaddexp(tot, c)
                mk.assume(tot > -float("inf"))
            rnd = _RandProxy(mk, np)
            saved = FT.np
            FT.np = _NpWithRandom(np, rnd)
            try:
                s = x.sample(frozenset(sampled), OrderedDict((k, Bint[n]) for k, n in sample_inputs.items()))
            finally:
                FT.np = saved
            pairs = []
            want = set(sizes) | set(sample_inputs)
            pairs.append((_b(mk, set(s.inputs) == want and s.output == Real), None))
            sb = OrderedDict(list(sample_inputs.items()) + list(batch.items()))
            if part == "mass":
                m1 = s.reduce(ops.logaddexp, frozenset(sampled))
                m0 = x.reduce(ops.logaddexp, frozenset(sampled))
                got, exp = [], []
                for b in itertools.product(*(range(n) for n in sb.values())):
                    env = dict(zip(sb, b))
                    got.append(result_cells(m1, env)[()])
                    exp.append(result_cells(m0, env)[()])
                pairs.append((got, exp))
                return pairs
            # drawn points
            deltas = [t for t in getattr(s, "terms", (s,)) if isinstance(t, Delta)]
            drawn = {}
            for d in deltas:
                for name, (point, ld) in d.terms:
                    drawn[name] = point
            pairs.append((_b(mk, set(drawn) == set(sampled)), None))
            for b in itertools.product(*(range(n) for n in sb.values())):
                env = dict(zip(sb, b))
                idx = {k: result_cells(drawn[k], env)[()] for k in sampled}
                # every drawn index is in range
                for k in sampled:
                    iv = idx[k]
                    pairs.append(((iv >= 0) & (iv < sizes[k]) if not mk.symbolic else _and(iv >= 0, iv < sizes[k]).l, None) if mk.symbolic else (bool(0 <= iv < sizes[k]), None))
                # value of the original tensor at the drawn point (If-chain gather over the finite event space)
                val = None
                for e in itertools.product(*(range(sizes[k]) for k in sampled)):
                    env2 = dict(env)
                    env2.update(zip(sampled, e))
                    c = Lc[tuple(env2[k] for k in names)]
                    cond = None
                    for k, ev in zip(sampled, e):
                        cc = idx[k] == ev
                        cond = cc if cond is None else C.c_and(cond, cc)
                    val = c if val is None else C.c_where(cond, c, val)
                if part == "support":
                    ok = val > -float("inf")
                    pairs.append((ok.l if mk.symbolic else bool(ok), None))
                else:       # "address": evaluating the sample term at ... the sampled funsor's own value at the drawn point
                    pt_sub = {k: drawn[k] for k in sampled}
                    at = x(**pt_sub)
                    pairs.append(([result_cells(at, env)[()]], [val]))
            return pairs
        raise ValueError(kind)
    return ob


def _b(mk, cond):
    import z3
    return z3.BoolVal(bool(cond)) if mk.symbolic else bool(cond)


def worker(inst):
    from harness.oblig import decide
    import z3
    tier = os.environ.get("VERIF_TIER", "quick")
    known = ()
    if inst[0] == "sample" and inst[4] == "support":
        def r_zero(sym):
            from symx.symarray import as_obj
            cs = []
            for k, (kind, car, v) in sym.made.items():
                if k.startswith("rand"):
                    cs += [c.l == 0 for c in as_obj(v).ravel()]
            return z3.Or(*cs) if cs else z3.BoolVal(False)
        known = [("KF-sample-rand-zero", r_zero)]
    out = decide(str(inst), build_obligation(inst), timeout_ms=8000 if tier == "quick" else 60000, twin=True, known=known, max_paths=16)
    out["prog"] = out["label"]
    return out


def instances(tier, seed):
    rng = random.Random(seed)
    out = []
    for batch in (OrderedDict(), OrderedDict(i=2), OrderedDict(i=2, j=3)):
        for shape in ((), (2,)):
            out.append(("delta_eval", batch, shape))
        for pk in ("tensor", "number", "lazy"):
            out.append(("delta_reduce", batch, pk))
            out.append(("delta_integrate", batch, pk))
    out += [("delta_eval_ld", ()), ("delta_eval_ld", (2,))]
    out += [("delta_independent", n, ldp) for n in (1, 2, 3) for ldp in (False, True)]
    for bx, by in ((OrderedDict(), OrderedDict()), (OrderedDict(i=2), OrderedDict(j=3)), (OrderedDict(i=2), OrderedDict(i=2)), (OrderedDict(i=2), OrderedDict())):
        for subset in (("x",), ("y",), ("x", "y")):
            out.append(("delta_integrate_joint", bx, by, subset))
    cfgs = []
    maxsize = 3 if tier == "quick" else 4
    for n_in in (1, 2, 3):
        for sizes in itertools.product(range(1, maxsize + 1), repeat=n_in):
            tot = 1
            for s in sizes:
                tot *= s
            if tot > (12 if tier == "quick" else 24):
                continue
            names = ["a", "b", "c"][:n_in]
            sz = OrderedDict(zip(names, sizes))
            for r in range(1, n_in + 1):
                for sampled in itertools.combinations(names, r):
                    for si in (OrderedDict(), OrderedDict(p=2), OrderedDict(p=2, q=1)):
                        cfgs.append((sz, tuple(sampled), si))
    rng.shuffle(cfgs)
    # always include joint sampling of three variables (mixed-radix unflattening)
    fixed = [(OrderedDict(a=2, b=2, c=2), ("a", "b", "c"), OrderedDict()), (OrderedDict(a=2, b=3, c=2), ("a", "b", "c"), OrderedDict(p=2)),
             (OrderedDict(a=3, b=2), ("a", "b"), OrderedDict(p=2)), (OrderedDict(a=2, b=2, c=3), ("a", "c"), OrderedDict())]
    for sz, sampled, si in fixed + cfgs[: (30 if tier == "quick" else 200)]:
        for part in ("mass", "support", "address"):
            out.append(("sample", sz, sampled, si, part))
    return out


def main():
    chk = Check("C14", "model_checking")
    insts = instances(chk.tier, chk.seed)
    chk.map("checks.c14", "worker", insts, chunksize=2)
    chk.bounds = dict(delta="batch 0-2 inputs, scalar and (2,) points; points that are numbers, batched tensors, lazy expressions; joint Delta over two real variables integrated over each subset", sampling="1-3 inputs of sizes 1-3|4 (<= 12|24 cells), every sampled subset, 0-2 sample inputs",
                      rng="np.random.rand replaced by fresh symbolic reals with 0 <= r < 1: every draw")
    chk.assumptions = ["RESTRICTED CLAIM: Gaussian sampling (needs triangular solves / QR / log-determinants), Contraction._sample and MonteCarlo are NOT covered", "unit-mass Delta only for the reduce/integrate identities (funsor's Delta is a normalised measure)",
                       "rows of the sampled tensor have positive mass (precondition)", "statistical properties of the RNG are outside the claim"]
    chk.floor = 60
    chk.finish(rule="Delta identities per (batch, point kind); per sampling configuration three obligation groups (mass / support / addressed cell); distinct = descriptor",
               trusted_base=["z3 5.1", "symx", "RNG stub (contract 0 <= r < 1)"])


if __name__ == "__main__":
    main()
