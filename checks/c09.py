"""C09 — plated sum-product equals brute-force unrolling (Engine A; every factor cell symbolic)."""
import itertools
import os
import random
import sys

sys.path.insert(0, os.path.dirname(os.path.dirname(os.path.abspath(__file__))))

from harness.runner import Check  # noqa: E402

SEMIRINGS = [("add", "mul", "real"), ("logaddexp", "add", "log"), ("max", "add", "real"), ("min", "add", "real"), ("max", "mul", "nonneg")]
VAR_SIZE = {"a": 2, "b": 2, "c": 2, "d": 2}


def unroll(graph, cells, env, C):
    """brute force: replicate every eliminated variable once per index of the eliminated plates it lives in,
    multiply all factor instances, sum out the copies.  graph: dict(factors=[(vars, plates)], plate_sizes, eliminate,
    plates, sum_op, prod_op).  cells[i] = object ndarray of factor i with axes (vars..., plates...)."""
    factors = graph["factors"]
    psize0 = graph["plate_sizes"]
    scales = graph.get("scales", {})
    elim = set(graph["eliminate"])
    all_plates = set(graph["plates"])
    eplates = all_plates & elim
    # a plate with (integer) scale s is a plate whose every index is replicated s times as independent copies
    psize = {p: n * (scales.get(p, 1) if p in eplates else 1) for p, n in psize0.items()}
    allvars = sorted({v for vs, ps in factors for v in vs})
    ordinal = {}
    for v in allvars:
        o = None
        for vs, ps in factors:
            if v in vs:
                o = set(ps) & all_plates if o is None else o & set(ps)
        ordinal[v] = o or set()
    evars = [v for v in allvars if v in elim]
    copies = {}
    for v in evars:
        pl = sorted(ordinal[v] & eplates)
        copies[v] = (pl, list(itertools.product(*(range(psize[p]) for p in pl))))
    slots = [(v, idx) for v in evars for idx in copies[v][1]]
    terms = []
    for assign in itertools.product(*(range(VAR_SIZE[v]) for v, _ in slots)):
        val = dict(zip(slots, assign))
        prod = []
        for (vs, ps), arr in zip(factors, cells):
            fe = sorted(set(ps) & eplates)
            for pidx in itertools.product(*(range(psize[p]) for p in fe)):
                penv = dict(zip(fe, pidx))
                index = []
                for v in vs:
                    if v in elim:
                        pl = copies[v][0]
                        index.append(val[(v, tuple(penv[p] for p in pl))])
                    else:
                        index.append(env[v])
                for p in ps:
                    index.append(penv[p] % psize0[p] if p in penv else env[p])
                prod.append(arr[tuple(index)])
        terms.append(C.fold(graph["prod_op"], prod) if prod else C.UNIT[graph["prod_op"]])
    return C.fold(graph["sum_op"], terms)


def well_formed(graph):
    """preserved variables may not live inside an eliminated plate (their copies would have to be distinct inputs)"""
    factors = graph["factors"]
    elim = set(graph["eliminate"])
    all_plates = set(graph["plates"])
    allvars = {v for vs, ps in factors for v in vs}
    for v in allvars:
        o = None
        for vs, ps in factors:
            if v in vs:
                o = set(ps) & all_plates if o is None else o & set(ps)
        if v not in elim and (o or set()) & elim:
            return False
        # a factor may mention v only inside plates that contain v's ordinal ... always true by intersection
    # joint table size bound
    n = 1
    for v in allvars & elim:
        o = None
        for vs, ps in factors:
            if v in vs:
                o = set(ps) & all_plates if o is None else o & set(ps)
        k = 1
        for p in (o or set()) & elim:
            k *= graph["plate_sizes"][p] * graph.get("scales", {}).get(p, 1)
        n *= VAR_SIZE[v] ** k
    return n <= 256


def build_obligation(inst):
    _, graph, variant = inst

    def ob(mk):
        import numpy as np
        from collections import OrderedDict
        import funsor
        import funsor.ops as ops
        from funsor import Bint, Tensor
        from funsor import sum_product as SP
        from harness.core import result_cells
        from harness.oblig import Decline
        from lang import cellops as C
        from symx.symarray import as_obj
        sum_op, prod_op = getattr(ops, graph["sum_op"]), getattr(ops, graph["prod_op"])
        psize = graph["plate_sizes"]
        arrs, tensors = [], []
        alias = graph.get("alias", {})
        for i, (vs, ps) in enumerate(graph["factors"]):
            shape = tuple(VAR_SIZE[v] for v in vs) + tuple(psize[p] for p in ps)
            # an aliased factor is the SAME array (hence the same cons-hashed Tensor) occurring twice in the list
            a = arrs[alias[i]] if i in alias else mk.array("f%d" % i, shape, graph["carrier"])
            arrs.append(a)
            inputs = OrderedDict([(v, Bint[VAR_SIZE[v]]) for v in vs] + [(p, Bint[psize[p]]) for p in ps])
            tensors.append(Tensor(a, inputs))
        elim = frozenset(graph["eliminate"])
        plates = frozenset(graph["plates"])
        theta = None
        if variant == "param":
            # one factor depends on a free real parameter: factor_k = tensor_k (x) theta
            from funsor import Real, Variable
            theta = mk.array("theta", (), graph["carrier"])
            k = graph.get("param_factor", 0) % len(tensors)
            tensors[k] = prod_op(tensors[k], Variable("theta", Real))
        if variant in ("lazy_factors", "lazy_factors_seq"):
            # several factors are lookups into free real-array parameters, indexed by the factor's variables and
            # plates: P_k[v1][v2]...; the lazy result is bound afterwards (at once, or one parameter at a time)
            from funsor import Reals, Variable
            which = [k for k in range(len(tensors)) if graph["factors"][k][0] or graph["factors"][k][1]]
            which = which[: max(2, graph.get("param_factor", 0) % 3 + 2)]
            binds = {}
            for k in which:
                vs, ps = graph["factors"][k]
                names = list(vs) + list(ps)
                pv = Variable("P%d" % k, Reals[tuple(arrs[k].shape)])
                t = pv
                for nm in names:
                    t = t[nm]
                tensors[k] = t
                binds["P%d" % k] = Tensor(arrs[k])
        try:
            if variant in ("lazy_factors", "lazy_factors_seq"):
                r = SP.sum_product(sum_op, prod_op, tensors, elim, plates)
                if variant == "lazy_factors":
                    r = r(**binds)
                else:
                    for nm, val in binds.items():
                        r = r(**{nm: val})
            elif variant == "param":
                r = SP.sum_product(sum_op, prod_op, tensors, elim, plates)
                r = r(theta=Tensor(theta))
            elif variant == "sum_product":
                r = SP.sum_product(sum_op, prod_op, tensors, elim, plates)
            elif variant == "scaled":
                r = SP.sum_product(sum_op, prod_op, tensors, elim, plates, plate_to_scale=dict(graph["scales"]))
            elif variant == "partial":
                rs = SP.partial_sum_product(sum_op, prod_op, tensors, elim, plates)
                r = _prod(prod_op, rs)
            elif variant.startswith("split"):
                e1 = frozenset(graph["split"])
                rs = SP.partial_sum_product(sum_op, prod_op, tensors, e1, plates)
                rs = SP.partial_sum_product(sum_op, prod_op, rs, elim - e1, plates)
                r = _prod(prod_op, rs)
            elif variant in ("modified", "modified_all"):
                ps_ = plates if variant == "modified_all" else plates & elim
                rs = SP.modified_partial_sum_product(sum_op, prod_op, tensors, elim, {p: frozenset() for p in ps_})
                r = _prod(prod_op, rs)
            elif variant == "dynamic":
                rs = SP.dynamic_partial_sum_product(sum_op, prod_op, tensors, elim, {p: {} for p in plates & elim})
                r = _prod(prod_op, rs)
            elif variant == "einsum":
                from funsor.einsum import einsum
                names = {}
                for vs, ps in graph["factors"]:
                    for n in list(vs) + list(ps):
                        names.setdefault(n, n)
                out_names = [n for n in names if n not in elim]
                eq = ",".join("".join(list(vs) + list(ps)) for vs, ps in graph["factors"]) + "->" + "".join(out_names)
                backend = {("add", "mul"): "numpy", ("logaddexp", "add"): "funsor.einsum.numpy_log", ("max", "add"): "funsor.einsum.numpy_map"}[(graph["sum_op"], graph["prod_op"])]
                r = einsum(eq, *tensors, plates="".join(sorted(plates)), backend=backend)
            else:
                raise ValueError(variant)
        except (ValueError, NotImplementedError) as e:
            raise Decline("%s: %s" % (type(e).__name__, str(e)[:80]))
        except (KeyError, AssertionError) as e:
            raise Decline("%s: %s" % (type(e).__name__, str(e)[:80]))
        # remaining inputs
        rem = OrderedDict()
        for (vs, ps) in graph["factors"]:
            for v in vs:
                if v not in elim:
                    rem[v] = VAR_SIZE[v]
            for p in ps:
                if p not in elim:
                    rem[p] = psize[p]
        extra = [k for k in r.inputs if k not in rem]
        if extra:
            return [(_false(mk, "result has inputs %s that are eliminated" % extra), None)]
        cells = [as_obj(a) for a in arrs]
        if theta is not None:
            tc = as_obj(theta)[()]
            k = graph.get("param_factor", 0) % len(cells)
            f2 = C.BINARY[graph["prod_op"]]
            nc = np.empty(cells[k].shape, dtype=object)
            for idx in np.ndindex(*cells[k].shape):
                nc[idx] = f2(cells[k][idx], tc)
            cells[k] = nc
        got, exp = [], []
        for pt in itertools.product(*(range(n) for n in rem.values())):
            env = dict(zip(rem, pt))
            g = result_cells(r, env)
            got.append(g[()] if getattr(g, "shape", None) == () else g)
            exp.append(unroll(graph, cells, env, C))
        return [(got, exp)]
    return ob


def _false(mk, msg):
    import z3
    return z3.BoolVal(False) if mk.symbolic else False


def _prod(prod_op, rs):
    from functools import reduce
    import funsor.ops as ops
    from funsor.terms import Number
    rs = list(rs)
    if not rs:
        return Number(ops.UNITS[prod_op])
    return reduce(prod_op, rs)


def worker(inst):
    from harness.oblig import decide
    from symx.symarray import use_logsumexp_spec
    use_logsumexp_spec()
    tier = os.environ.get("VERIF_TIER", "quick")
    out = decide("%s|%s/%s|%s" % (inst[2], inst[1]["sum_op"], inst[1]["prod_op"], _show(inst[1])), build_obligation(inst),
                 timeout_ms=6000 if tier == "quick" else 20000, twin=True)
    out["prog"] = out["label"]
    return out


def _show(g):
    return "factors=%s plates=%s sizes=%s eliminate=%s%s" % (
        ["".join(vs) + "|" + "".join(ps) for vs, ps in g["factors"]], sorted(g["plates"]), g["plate_sizes"], sorted(g["eliminate"]),
((" split=%s" % sorted(g["split"])) if "split" in g else "") + ((" scales=%s" % g["scales"]) if "scales" in g else "") +
        ((" same_tensor=%s" % g["alias"]) if g.get("alias") else ""))


def gen_graphs(rng, n, max_factors, max_vars, max_plates, max_psize):
    out = []
    tries = 0
    while len(out) < n and tries < 60 * n:
        tries += 1
        nv = rng.randint(1, max_vars)
        npl = rng.randint(0, max_plates)
        vars_ = ["a", "b", "c", "d"][:nv]
        plates = ["i", "j", "k"][:npl]
        psize = {p: rng.randint(1, max_psize) for p in plates}
        nf = rng.randint(1, max_factors)
        # nested plate contexts: each factor lives in a prefix-closed or arbitrary subset
        factors = []
        for _ in range(nf):
            vs = tuple(v for v in vars_ if rng.random() < 0.55)
            ps = tuple(p for p in plates if rng.random() < 0.5)
            if not vs and not ps:
                continue
            factors.append((vs, ps))
        if not factors:
            continue
        used_v = sorted({v for vs, ps in factors for v in vs})
        used_p = sorted({p for vs, ps in factors for p in ps})
        elim = set(v for v in used_v if rng.random() < 0.75) | set(p for p in used_p if rng.random() < 0.75)
        g = dict(factors=factors, plate_sizes=psize, plates=used_p, eliminate=sorted(elim))
        if not well_formed(g):
            continue
        out.append(g)
    return out


def splits(g, rng):
    """first halves E1 of the eliminate set for which eliminating E1 and then the rest is exact:
    a variable may go first only together with every eliminated plate in which some factor mentions it, and a plate
    only together with every eliminated variable living inside it"""
    elim = set(g["eliminate"])
    plates = set(g["plates"])
    factors = g["factors"]
    allvars = {v for vs, ps in factors for v in vs}
    ordinal = {}
    for v in allvars:
        o = None
        for vs, ps in factors:
            if v in vs:
                o = set(ps) & plates if o is None else o & set(ps)
        ordinal[v] = o or set()
    res = []
    for _ in range(6):
        e1 = set(x for x in elim if rng.random() < 0.5)
        ok = True
        for v in e1 - plates:
            for vs, ps in factors:
                if v in vs and any(p in elim and p not in e1 for p in ps):
                    ok = False
        for p in e1 & plates:
            for v in allvars & elim:
                if p in ordinal[v] and v not in e1:
                    ok = False
        if ok and e1 and e1 != elim and sorted(e1) not in res:
            res.append(sorted(e1))
    return res


def structured_graphs():
    """hand-picked structures: sibling plate contexts sharing a variable, nested plates, variables local to plates"""
    G = []
    ps = {"i": 2, "j": 2, "k": 1}
    G.append(dict(factors=[(("a",), ("i",)), (("a",), ("j", "k"))], plate_sizes=ps, plates=["i", "j", "k"], eliminate=["a", "i", "j", "k"]))
    G.append(dict(factors=[(("a",), ("i",)), (("a", "b"), ("j", "k")), (("b",), ("j",))], plate_sizes=ps, plates=["i", "j", "k"], eliminate=["a", "b", "i", "j", "k"]))
    G.append(dict(factors=[(("a",), ("i",)), (("a",), ("j", "k"))], plate_sizes=ps, plates=["i", "j", "k"], eliminate=["a", "i", "j"]))
    G.append(dict(factors=[(("a",), ()), (("a", "b"), ("i",)), (("b", "c"), ("i", "j"))], plate_sizes=ps, plates=["i", "j"], eliminate=["a", "b", "c", "i", "j"]))
    G.append(dict(factors=[(("a", "b"), ("i",)), (("b",), ("i", "j")), (("a",), ("j",))], plate_sizes=ps, plates=["i", "j"], eliminate=["a", "b", "i", "j"]))
    G.append(dict(factors=[(("b",), ("i", "j")), (("a",), ("i",))], plate_sizes=ps, plates=["i", "j"], eliminate=["a", "b", "i", "j"]))
    G.append(dict(factors=[(("a",), ("i",)), (("a",), ("i", "j")), (("a",), ("i", "k"))], plate_sizes={"i": 1, "j": 2, "k": 2}, plates=["i", "j", "k"], eliminate=["a", "i", "j", "k"]))
    # not exactly eliminable (incomparable plate contexts coupled by one factor): a ValueError is expected, never a value
    G.append(dict(factors=[(("a", "b"), ("i", "j", "k")), (("a",), ("i",)), (("b",), ("j", "k"))], plate_sizes={"i": 2, "j": 1, "k": 2}, plates=["i", "j", "k"], eliminate=["a", "b", "i", "j", "k"]))
    G.append(dict(factors=[(("a", "b"), ("i", "j", "k")), (("a",), ("i", "j")), (("b",), ("k",))], plate_sizes={"i": 1, "j": 2, "k": 2}, plates=["i", "j", "k"], eliminate=["a", "b", "i", "j", "k"]))
    G.append(dict(factors=[(("a", "b"), ("i", "j")), (("a",), ("i",)), (("b",), ("j",))], plate_sizes={"i": 2, "j": 2}, plates=["i", "j"], eliminate=["a", "b", "i", "j"]))
    return [g for g in G if well_formed(g)]


def instances(tier, seed):
    rng = random.Random(seed)
    out = []
    for sum_op, prod_op, car in SEMIRINGS:
        for g in structured_graphs():
            g = dict(g, sum_op=sum_op, prod_op=prod_op, carrier=car)
            out.append(("g", g, "sum_product"))
            out.append(("g", g, "partial"))
            out.append(("g", g, "modified"))
            out.append(("g", g, "dynamic"))
            for sp in splits(g, rng)[:2]:
                out.append(("g", dict(g, split=sp), "split"))
            if (sum_op, prod_op) in (("add", "mul"), ("logaddexp", "add"), ("max", "add")):
                # a free real parameter on each factor in turn (equal-sized nested plates: the parameter's multiplicity is |i|*|j|)
                for k in range(len(g["factors"])):
                    out.append(("g", dict(g, param_factor=k), "param"))
    n = 40 if tier == "quick" else 400
    for sum_op, prod_op, car in SEMIRINGS:
        graphs = gen_graphs(rng, n, 4 if tier == "quick" else 5, 3 if tier == "quick" else 4, 2 if tier == "quick" else 3, 2 if tier == "quick" else 3)
        for g in graphs:
            g = dict(g, sum_op=sum_op, prod_op=prod_op, carrier=car)
            out.append(("g", g, "sum_product"))
            if rng.random() < 0.5:
                out.append(("g", g, "partial"))
            if g["plates"] and set(g["plates"]) & set(g["eliminate"]) and rng.random() < 0.5:
                gs = dict(g, scales={p: rng.choice([1, 2, 3]) for p in g["plates"]})
                if well_formed(gs):
                    out.append(("g", gs, "scaled"))
            for sp in splits(g, rng)[:1]:
                out.append(("g", dict(g, split=sp), "split"))
            if rng.random() < 0.4:
                out.append(("g", g, rng.choice(["modified", "dynamic"])))
            if rng.random() < 0.4 and (sum_op, prod_op) in (("add", "mul"), ("logaddexp", "add"), ("max", "add")):
                out.append(("g", dict(g, param_factor=rng.randrange(5)), "param"))
                kdup = rng.randrange(len(g["factors"]))
                gd = dict(g, factors=list(g["factors"]) + [g["factors"][kdup]], alias={len(g["factors"]): kdup})
                out.append(("g", gd, rng.choice(["sum_product", "partial"])))
                out.append(("g", dict(g, param_factor=rng.randrange(5)), rng.choice(["lazy_factors", "lazy_factors_seq"])))
            if rng.random() < 0.1 and set(g["plates"]) - set(g["eliminate"]):
                out.append(("g", g, "modified_all"))
            if (sum_op, prod_op) in (("add", "mul"), ("logaddexp", "add"), ("max", "add")) and rng.random() < 0.4:
                out.append(("g", g, "einsum"))
    return out


def main():
    chk = Check("C09", "model_checking")
    insts = instances(chk.tier, chk.seed)
    chk.map("checks.c09", "worker", insts, chunksize=4)
    chk.bounds = dict(factors="<= 4|5", variables="<= 3|4 of size 2", plates="<= 2|3 of sizes 1-2|3", unrolled_joint_cells="<= 256", semirings=[s[:2] for s in SEMIRINGS],
                      variants=["sum_product", "partial_sum_product", "two successive partial_sum_product calls", "modified/dynamic with empty Markov steps", "plated einsum"])
    chk.assumptions = ["assume-guarantee cut: funsor.ops.logsumexp on symbolic arrays is replaced by its specification (decided on its own under C01/C15); maxima of ops.detach()ed log-space arrays are abstracted to arbitrary positive shifts", "plate scales are integers 1-3 (a scaled plate = every index replicated as independent copies)", "graphs whose preserved variables live inside an eliminated plate are excluded (the unrolled copies would have to be distinct inputs)",
                       "a ValueError/NotImplementedError from funsor is a decline"]
    chk.floor = 150
    chk.finish(rule="seeded random plated factor graphs per semiring x variant; distinct = descriptor", trusted_base=["z3 5.1", "symx", "brute-force unrolling in checks/c09.py"])


if __name__ == "__main__":
    main()
