"""C20 monitor: snapshot every array / funsor the harness holds before a program runs and compare afterwards.
Symbolic arrays: a cell that was overwritten holds a different term; the solver decides whether its VALUE can
differ (a real mutation) or not (a write of an equal value).  Concrete arrays: bit-for-bit."""
import numpy as np
import z3


def snap_sym(arr):
    a = arr.view(np.ndarray)
    return dict(arr=arr, shape=a.shape, cells=[c for c in a.ravel()], strides=a.strides)


def snap_conc(arr):
    a = np.asarray(arr)
    return dict(arr=arr, shape=a.shape, dtype=str(a.dtype), bytes=a.tobytes(), flags=a.flags.writeable)


def snap_funsor(f):
    from funsor.tensor import Tensor
    d = dict(f=f, inputs=tuple((k, v) for k, v in f.inputs.items()), output=f.output, cls=type(f))
    if isinstance(f, Tensor):
        d["data_id"] = id(f.data)
        if f.data.dtype == object:
            d["data"] = snap_sym(f.data)
        else:
            d["data"] = snap_conc(f.data)
    return d


def diff_sym(s):
    """list of (index, before, after) for cells whose object changed"""
    a = s["arr"].view(np.ndarray)
    if a.shape != s["shape"]:
        return [("shape", s["shape"], a.shape)]
    out = []
    for i, (b, c) in enumerate(zip(s["cells"], a.ravel())):
        if b is not c:
            out.append((i, b, c))
    return out


def diff_conc(s):
    a = np.asarray(s["arr"])
    if a.shape != s["shape"] or str(a.dtype) != s["dtype"]:
        return "shape/dtype changed: %s %s -> %s %s" % (s["shape"], s["dtype"], a.shape, a.dtype)
    if a.tobytes() != s["bytes"]:
        old = np.frombuffer(s["bytes"], dtype=a.dtype).reshape(a.shape)
        idx = np.argwhere(~((old == a) | ((old != old) & (a != a))))
        return "contents changed at %s: %r -> %r" % (idx[:3].tolist(), old[tuple(idx[0])] if len(idx) else None, a[tuple(idx[0])] if len(idx) else None)
    return None


def diff_funsor(s):
    f = s["f"]
    if tuple((k, v) for k, v in f.inputs.items()) != s["inputs"]:
        return "inputs changed: %s -> %s" % (s["inputs"], tuple(f.inputs.items()))
    if f.output != s["output"]:
        return "output changed: %s -> %s" % (s["output"], f.output)
    if "data_id" in s:
        if id(f.data) != s["data_id"]:
            return "data array replaced"
        if "cells" in s["data"]:
            d = diff_sym(s["data"])
            if d:
                return ("cells", d)
        else:
            d = diff_conc(s["data"])
            if d:
                return "data " + d
    return None


def decide_sym_diffs(diffs, hyps, timeout_ms=4000):
    """are the changed cells really different values for some contents?  returns (verdict, model)"""
    from symx import engine
    from symx.sv import SV, sv_eq_formula
    from symx.engine import Unsupported
    conj = []
    for i, b, c in diffs:
        if i == "shape":
            return "sat", None
        try:
            conj.append(sv_eq_formula(SV.lift(b), SV.lift(c)))
        except Unsupported:
            return "sat", None
    goal = z3.And(*conj) if conj else z3.BoolVal(True)
    v, m, _ = engine.check_valid(hyps, goal, timeout_ms)
    return v, m
