"""Rule monitor (C02): wraps the `dispatch` attribute of every DispatchedInterpretation instance at run time
and records each rule firing (rule returned a non-None result for (cls, args))."""
import collections

FIRINGS = []
SEEN_RULES = collections.Counter()
_WRAPPED = {}
_ACTIVE = [False]
_DEPTH = [0]
MAX_PER_KEY = [6]
_KEYCOUNT = collections.Counter()


def _rule_name(fn):
    f = fn
    while hasattr(f, "__wrapped__"):
        f = f.__wrapped__
    mod = getattr(f, "__module__", "?")
    return "%s.%s" % (mod, getattr(f, "__qualname__", getattr(f, "__name__", repr(f))))


def wrap(interp):
    if id(interp) in _WRAPPED:
        return
    orig = interp.dispatch

    def dispatch(cls, *args):
        fn = orig(cls, *args)
        if not _ACTIVE[0]:
            return fn

        def rule(*a):
            result = fn(*a)
            if result is not None and _ACTIVE[0]:
                from funsor.terms import Funsor
                if isinstance(result, Funsor):
                    name = _rule_name(fn)
                    SEEN_RULES[(interp.__name__, name)] += 1
                    key = (interp.__name__, name, tuple(type(x).__name__.split("[")[0] for x in a))
                    if _KEYCOUNT[key] < MAX_PER_KEY[0]:
                        _KEYCOUNT[key] += 1
                        FIRINGS.append((interp.__name__, name, cls, a, result))
            return result
        return rule
    interp.dispatch = dispatch
    _WRAPPED[id(interp)] = (interp, orig)


def install():
    import funsor.interpretations as I
    import funsor.optimizer as O
    from funsor.interpretations import DispatchedInterpretation
    mods = [I, O]
    try:
        import funsor.adjoint as A
        mods.append(A)
    except Exception:
        pass
    for m in mods:
        for name, obj in list(vars(m).items()):
            if isinstance(obj, DispatchedInterpretation):
                wrap(obj)


def registered_rules():
    """all rule functions registered with the wrapped interpretations (for the coverage table)"""
    out = set()
    for interp, orig in _WRAPPED.values():
        reg = getattr(interp, "registry", None)
        if reg is None:
            continue
        for key, disp in getattr(reg, "registry", {}).items():
            for sig, fn in getattr(disp, "funcs", {}).items():
                if type(fn).__name__ == "PartialDefault":
                    continue
                out.add((interp.__name__, _rule_name(fn)))
    return out


class Recorder:
    """monitor object for harness.core.check_prog(monitors=...)"""

    def begin(self, state):
        install()
        del FIRINGS[:]
        _ACTIVE[0] = True

    def end(self, state, result):
        _ACTIVE[0] = False
        state["firings"] = list(FIRINGS)
        from symx import engine
        engine.ctx().notes_firings = list(FIRINGS)
        del FIRINGS[:]


def outside_carrier(prog, inside=False):
    """(max|min, mul) is a semiring on NON-NEGATIVE data only.  A term in which a max/min reduction (or binary max/min)
    sits over a product with a negative constant or a negation is outside the carrier on which the rules that fuse /
    distribute / push reductions are declared (funsor produces such terms itself: -x is rewritten to x * -1)."""
    if not isinstance(prog, tuple) or not prog or not isinstance(prog[0], str):
        return False
    tag = prog[0]
    if tag == "reduce" and prog[1] in ("max", "min"):
        return outside_carrier(prog[2], True)
    if tag == "binary" and prog[1] in ("max", "min"):
        return outside_carrier(prog[2], True) or outside_carrier(prog[3], True)
    if inside:
        if tag == "num" and isinstance(prog[1], (int, float)) and prog[1] < 0:
            return True
        if tag == "unary" and prog[1] == "neg":
            return True
        if tag == "binary" and prog[1] == "sub":
            return True
    return any(outside_carrier(x, inside) for x in prog[1:] if isinstance(x, tuple)) or \
        any(outside_carrier(y, inside) for x in prog[1:] if isinstance(x, tuple) for y in x if isinstance(y, tuple))


def maxmul_leaves(prog, inside=False, acc=None):
    """names of the data leaves that sit under a (max|min) reduction / binary together with a product"""
    acc = set() if acc is None else acc
    if not isinstance(prog, tuple) or not prog or not isinstance(prog[0], str):
        return acc
    tag = prog[0]
    if tag in ("reduce", "binary") and prog[1] in ("max", "min"):
        sub = prog[2:4] if tag == "binary" else prog[2:3]
        if any(n[0] == "binary" and n[1] in ("mul", "truediv") for x in sub for n in _walk(x)):
            inside = True
    if inside and tag == "leaf":
        acc.add(prog[1])
    for x in prog[1:]:
        if isinstance(x, tuple):
            if x and isinstance(x[0], str):
                maxmul_leaves(x, inside, acc)
            else:
                for y in x:
                    if isinstance(y, tuple):
                        maxmul_leaves(y, inside, acc)
                        for z in y:
                            if isinstance(z, tuple):
                                maxmul_leaves(z, inside, acc)
    return acc


def _walk(e):
    if isinstance(e, tuple):
        if e and isinstance(e[0], str):
            yield e
        for x in e:
            yield from _walk(x)


def data_outside_carrier(progs, leaves, hyps=None, timeout_ms=2000):
    """True when some tensor under a (max|min)-with-mul is not provably non-negative (concrete data: has a negative cell)"""
    import numpy as np
    import z3
    from symx import engine
    from symx.sv import SV
    names = set()
    for p in progs:
        names |= maxmul_leaves(p)
    goals = []
    for n in names:
        a = leaves.get(n)
        if a is None:
            continue
        for c in np.asarray(a, dtype=object).ravel() if not isinstance(a, np.ndarray) or a.dtype == object else a.ravel():
            if isinstance(c, SV):
                if c.k in ("bool", "int"):
                    continue
                g = (c >= 0)
                goals.append(g.l if isinstance(g, SV) else z3.BoolVal(bool(g)))
            else:
                try:
                    if c < 0:
                        return True
                except TypeError:
                    continue
    goals = [g for g in goals if not z3.is_true(z3.simplify(g))]
    if not goals:
        return False
    c = engine.ctx()
    v, _, _ = engine.check_valid(list(hyps or ()) + list(c.axioms.values()) + [d for d, _ in c.defined], z3.And(*goals), timeout_ms)
    return v != "unsat"


def decide_firing(f, hyps, real_env, timeout_ms=4000):
    """obligation of one firing: sem(result) == sem_app(cls, args) on the joint input space; inputs(result) subset.
    returns dict(status=ok|violation|skipped|inconclusive, ...)"""
    import itertools
    import numpy as np
    import z3
    from lang.denote import OracleUndefined, denote
    from lang.fromterm import Conv, NoSemantics
    from lang.prog import IllTyped, type_of
    from symx import engine
    from symx.engine import Unsupported
    from symx.sv import sv_eq_formula
    from symx.symarray import sym_array
    interp, rule, cls, args, result = f
    conv = Conv()
    try:
        redex = conv.app(cls, args)
        res = conv.term(result)
        rin, rout = type_of(redex)
        sin, sout = type_of(res)
    except (NoSemantics, IllTyped, KeyError, AttributeError, TypeError) as e:
        return dict(status="skipped", why="%s: %s" % (type(e).__name__, str(e)[:80]))
    if redex == res:
        return dict(status="ok", trivial=True)
    if outside_carrier(redex) or outside_carrier(res):
        return dict(status="skipped", why="outside the non-negative carrier of (max|min, mul)")
    try:
        if data_outside_carrier((redex, res), conv.leaves, hyps):
            return dict(status="skipped", why="tensor data under (max|min, mul) not provably non-negative: outside the carrier")
    except (Unsupported, TypeError, ValueError):
        pass
    extra = [k for k in sin if k not in rin]
    if extra:
        return dict(status="violation", why="result depends on inputs %s that the redex does not have" % extra)
    if tuple(sout[1]) != tuple(rout[1]):
        return dict(status="violation", why="result shape %s, redex shape %s" % (sout[1], rout[1]))
    env0 = {}
    for k, d in rin.items():
        if d[0] == "real":
            env0[k] = real_env[k] if k in real_env else sym_array("mon_" + k, tuple(d[1]), "real")
    names = [k for k, d in rin.items() if d[0] == "bint"]
    conj = []
    try:
        for pt in itertools.product(*(range(rin[k][1]) for k in names)):
            env = dict(zip(names, pt))
            env.update(env0)
            try:
                a = denote(res, env, conv.leaves)
                b = denote(redex, env, conv.leaves)
            except OracleUndefined:
                continue
            if a.shape != b.shape:
                return dict(status="violation", why="value shape %s vs %s" % (a.shape, b.shape))
            for i in np.ndindex(*a.shape):
                conj.append(sv_eq_formula(a[i], b[i]))
    except (Unsupported, NotImplementedError, KeyError, IndexError, TypeError, ValueError, ZeroDivisionError) as e:
        return dict(status="skipped", why="oracle: %s: %s" % (type(e).__name__, str(e)[:80]))
    if not conj:
        return dict(status="skipped", why="no points")
    goal = z3.And(*conj)
    if z3.is_true(z3.simplify(goal)):
        return dict(status="ok", trivial=True)
    c = engine.ctx()
    v, model, dt = engine.check_valid(list(hyps) + list(c.axioms.values()) + [d for d, _ in c.defined], goal, timeout_ms)
    if v == "unsat":
        return dict(status="ok", trivial=False, solver_s=dt)
    if v == "unknown":
        return dict(status="inconclusive", solver_s=dt)
    return dict(status="sat", model=model, redex=redex, res=res, leaves=conv.leaves, env0=env0, names=names, rin=rin, solver_s=dt)
